"""Which worlds decide which property, with how many runs per tier, and what the evidence says."""
import world_envelope  # noqa: F401
import world_chain  # noqa: F401
import world_deleg  # noqa: F401
import world_storage  # noqa: F401
import world_process  # noqa: F401
import world_threads  # noqa: F401
import world_builder  # noqa: F401
import world_pgp  # noqa: F401
import world_validators  # noqa: F401

REAL = ["conda_content_trust/*.py (working tree)", "pyca/cryptography + OpenSSL", "json, codecs, io.TextIOWrapper"]
ASSUME_CRYPTO = ("ed25519 is unforgeable and a random corruption of a signature, key or header does not yield "
                 "another valid signature (probability about 2^-128); SHA-256 collisions do not occur")
ASSUME_SAMPLE = "seeded search samples histories and faults; a clean batch is evidence, not proof"
RULE_ENV = ("one evaluation = one simulated run of the envelope world: 1-8 signers with mixed signer "
            "implementations, 10-45 operations (sign / attack from the catalogue / reorder / edit / verify), ledger-"
            "derived oracle; a run is non-trivial if at least one channel fault fired and both an acceptance and a "
            "rejection were observed; distinct = distinct event-log digests among those")

ENV_STUB = ["signers and attacker (harness)", "SimStdout sink", "securesystemslib.gpg.functions (SimGPG stub)"]

PLANS = {}


def _env_plan(prop, quick, thorough, must=()):
    return {
        "level": "exploration",
        "stages": [{"world": "envelope", "runs": {"quick": quick, "thorough": thorough}}],
        "rule": RULE_ENV,
        "assumptions": [ASSUME_CRYPTO, ASSUME_SAMPLE,
                        "bounds: <= 8 keys, <= 3 envelopes per run, payload <= 40 nodes, depth <= 4"],
        "components": {"real": REAL, "stub": ENV_STUB},
        "must_probe": {"all": list(must)},
    }


PLANS["C01"] = _env_plan("C01", 2500, 200000, ["rejected_with_threshold_minus_1", "accepted_with_exactly_threshold"])
PLANS["C02"] = _env_plan("C02", 2500, 200000, ["accepted_despite_junk", "accepted_with_exactly_threshold"])
PLANS["C09"] = _env_plan("C09", 2500, 200000, ["order_independence_checked", "double_sign", "threshold_sweep"])


RULE_CHAIN = ("one evaluation = one simulated run of the chain world: 3-10 root key holders, key ceremonies (one event per "
              "OpenPGP-mode signature, mixed signer implementations), repository, attacker compromising keys and crafting / "
              "replaying documents from the attack catalogue, network faults (drop, duplicate, delay/reorder, bit flip, "
              "truncation), 1-2 clients with persisted trusted roots and crash/restart, quiescence phase; non-trivial = at "
              "least one fault fired and both an adoption and a rejection occurred; distinct = distinct event-log digests")
CHAIN_STUB = ["key holders, repository, attacker, network, client update loop (harness model of conda's loop)",
              "SimFS (client cache, ceremony files)", "SimClock", "SimStdout sink", "securesystemslib.gpg.functions (SimGPG stub)"]


def _chain_plan(quick, thorough, must=()):
    return {
        "level": "exploration",
        "stages": [{"world": "chain", "runs": {"quick": quick, "thorough": thorough}}],
        "rule": RULE_CHAIN,
        "assumptions": [ASSUME_CRYPTO, ASSUME_SAMPLE, "the client's trust anchor (initial root and its cache) is intact",
                        "bounds: <= 10 keys, <= 60 operations per run, <= 2 clients"],
        "components": {"real": REAL, "stub": CHAIN_STUB},
        "must_probe": {"all": list(must)},
    }


PLANS["C03"] = _chain_plan(1500, 150000, ["accepted_at_exact_threshold_both_rules", "old_rule_met_new_rule_missed",
                                          "new_rule_met_old_rule_missed", "offer_version"])
PLANS["C04"] = _chain_plan(1500, 150000, ["client_adopted_root", "stale_response_delivered", "client_converged_to_head",
                                          "attacker_with_quorum_moved_client"])

RULE_C13 = ("global monitor: every call any simulated party makes into a public validator or verifier, in every world, must "
            "return or raise within the documented families (library hierarchy, TypeError, ValueError; InvalidSignature only "
            "from the two single-signature primitives), with the documented class when exactly one defect is present; one "
            "evaluation = one simulated run; non-trivial = at least one fault fired and both outcomes seen")
PLANS["C13"] = {
    "level": "exploration",
    "stages": [{"world": "chain", "runs": {"quick": 1200, "thorough": 100000}},
               {"world": "envelope", "runs": {"quick": 1200, "thorough": 100000}}],
    "rule": RULE_C13,
    "assumptions": [ASSUME_SAMPLE, "scope: values a JSON parser can return, in the argument positions a client, signer or CLI "
                    "reaches through the simulated seams; arbitrary non-JSON Python objects in every argument position are not covered",
                    "nesting depth bounded (<= 6) well below the interpreter recursion limit"],
    "components": {"real": REAL, "stub": CHAIN_STUB},
}
PLANS["C16"] = {
    "level": "exploration",
    "stages": [{"world": "chain", "runs": {"quick": 1200, "thorough": 100000}}],
    "rule": RULE_CHAIN,
    "assumptions": [ASSUME_SAMPLE],
    "components": {"real": REAL, "stub": CHAIN_STUB},
}


RULE_DELEG = ("one evaluation = one simulated run of the delegation world: trusted delegating metadata with 1-4 roles whose key "
              "sets overlap (built by the library's builder or directly, sometimes malformed), untrusted envelopes (delegating "
              "metadata of matching / mismatching type listing their own keys, or arbitrary payloads), signing events by subsets of "
              "the key holders in raw or OpenPGP mode, the envelope world's channel faults, verify_delegation calls for delegated, "
              "undelegated and near-miss role names; non-trivial = at least one fault fired and both outcomes seen")
DELEG_STUB = ENV_STUB


def _deleg_plan(quick, thorough, must=()):
    return {
        "level": "exploration",
        "stages": [{"world": "deleg", "runs": {"quick": quick, "thorough": thorough}}],
        "rule": RULE_DELEG,
        "assumptions": [ASSUME_CRYPTO, ASSUME_SAMPLE, "well-formedness of delegating metadata is judged by the library's own checker "
                        "(C14 is not claimed)", "bounds: <= 8 keys, <= 4 roles per trusted document, <= 3 trusted documents and 3 envelopes per run"],
        "components": {"real": REAL, "stub": DELEG_STUB},
        "must_probe": {"all": list(must)},
    }


PLANS["C05"] = _deleg_plan(2000, 150000, ["deleg_unknown", "deleg_sigs", "deleg_none", "deleg_mismatch"])
PLANS["C06"] = _deleg_plan(2000, 150000, ["deleg_mismatch", "strip_removed_entries"])
PLANS["C06"]["stages"].append({"world": "envelope", "runs": {"quick": 800, "thorough": 50000}})
PLANS["C13"]["stages"].append({"world": "deleg", "runs": {"quick": 1200, "thorough": 100000}})


RULE_STORAGE = ("one evaluation = one simulated history of 6-28 operations on files of a simulated file system: write / load / "
                "add-signature (raw and GPG path) / re-sign / load-write cycles / verdict-vector comparison on metadata files, and "
                "repository-side signing, re-signing, re-keying, adding/removing artifacts on repodata files followed by the client "
                "path root -> key_mgr -> pkg_mgr; 60% of runs fault-free with a strict oracle, 40% with I/O errors, short reads and "
                "writes, crash before close and flipped stored bits under the relaxed oracle (old, new or unparsable); non-trivial = "
                "the run both accepted and rejected something and (fault configuration) at least one fault fired")
STORAGE_STUB = ["SimFS (in-memory file system injected as `open`)", "SimStdout sink", "securesystemslib.gpg.functions (SimGPG stub)",
                "repository operator and client loop (harness)"]
PLANS["C08"] = {
    "level": "exploration",
    "stages": [{"world": "storage", "runs": {"quick": 2000, "thorough": 150000}}],
    "rule": RULE_STORAGE,
    "assumptions": [ASSUME_CRYPTO, ASSUME_SAMPLE, "durability of a real file system is approximated: a crash during an un-closed "
                    "truncating write leaves the old content, nothing, or a prefix", "payloads <= 40 nodes, depth <= 4"],
    "components": {"real": REAL, "stub": STORAGE_STUB},
    "must_probe": {"all": ["signature_added_to_stored_file", "verdict_vectors_compared", "load_write_cycles", "torn_file_unparsable"]},
}
PLANS["C11"] = {
    "level": "exploration",
    "stages": [{"world": "storage", "runs": {"quick": 2000, "thorough": 150000}}],
    "rule": RULE_STORAGE,
    "assumptions": [ASSUME_CRYPTO, ASSUME_SAMPLE, "artifact names are distinct across packages and packages.conda (the property's precondition)",
                    "<= 6 artifacts per section"],
    "components": {"real": REAL, "stub": STORAGE_STUB},
    "must_probe": {"all": ["client_verified_artifact", "repodata_signed_again", "swap_identical_metadata", "repodata_edited_remove"]},
}
PLANS["C18"] = {
    "level": "fault_enumeration",
    "stages": [{"world": "inplace", "runs": {"quick": 600, "thorough": 40000}}],
    "rule": ("scenarios are sampled (repodata documents with 0-6 artifacts per section in several on-disk formats, GPG-path envelopes, "
             "CLI wrappers, malformed inputs, bad keys/fingerprints); within each scenario the enumeration is exhaustive: an exception "
             "at every line event executed inside library frames before the first opening-for-write of the target, an I/O error or "
             "short read at every file-system operation before it, a failure of every callee-seam call (signing device per artifact, "
             "GnuPG create_signature / export_pubkey, optional dependency absent); evaluations = fault-injected executions; "
             "distinct_nontrivial = executions in which the call failed and the target's bytes were compared"),
    "assumptions": ["line-event granularity inside conda_content_trust/*; faults inside C extensions (json, OpenSSL) are represented by "
                    "exceptions at the calling line and by the callee seams", "faults during the output phase (after the file was opened "
                    "for writing) are outside the property's wording; they are injected and counted as out-of-scope observations"],
    "components": {"real": REAL, "stub": STORAGE_STUB + ["signing device proxy (HSM seam)"]},
    "technique": "deterministic simulation with exhaustive per-scenario fault-point enumeration (sys.settrace exception injection, SimFS "
                 "fault plan, callee-seam failures) over seeded scenarios",
}


PROC_REAL = REAL + ["real OS processes: fresh /venv/bin/python interpreters, the installed console script, python -m entry points"]
PLANS["C07"] = {
    "level": "exploration",
    "stages": [{"world": "canon", "runs": {"quick": 160, "thorough": 4000}}],
    "rule": ("one evaluation = one seeded corpus (120 quick / 400 thorough JSON values: random insertion orders, two-party construction, "
             "all Unicode planes incl. lone surrogates, special floats, integers up to 4200 digits, envelopes) serialized in-process and "
             "in 2-4 fresh interpreters under seeded configurations (hash seed x locale x PYTHONUTF8 x PYTHONIOENCODING x TZ x cwd x -O); "
             "all digests must agree; every value is also compared with the reference serializer, re-parsed, re-serialized, rebuilt "
             "with a permuted insertion history, and entered in an injectivity table; non-trivial = distinct run digests (each run has "
             "its own corpus and configurations)"),
    "assumptions": [ASSUME_SAMPLE, "float digits are taken from float.__repr__ and validated (round trip, pinned spelling); integers "
                    "bounded by the interpreter's 4300-digit conversion limit, which also bounds what its JSON parser can return"],
    "components": {"real": PROC_REAL, "stub": ["corpus generator and configuration scheduler (harness)"]},
    "technique": "deterministic simulation over process configurations: seeded corpus serialized in fresh interpreters under seeded "
                 "environment configurations, digests compared with each other and with a reference serializer",
}
PLANS["C17"] = {
    "level": "exploration",
    "stages": [{"world": "cli", "runs": {"quick": 120, "thorough": 6000}}],
    "rule": ("one evaluation = one simulated history (key ceremonies, compromises, crafted documents, key_mgr issuance) whose documents "
             "are written to real files in several on-disk formats (plus missing / directory / empty / not-JSON / BOM / binary files) and "
             "handed to real processes: console script, python -m conda_content_trust, python -m conda_content_trust.cli, under seeded "
             "environments; oracle = in-process library verdict on the same files; sign-artifacts runs with good and unusable key files; "
             "non-trivial = both an expected acceptance and an expected rejection were executed"),
    "assumptions": [ASSUME_SAMPLE, "a standard output that cannot be written at all is out of scope (the property requires a report and a status)",
                    "gpg-sign / gpg-key-lookup run as real processes with a stand-in securesystemslib package on PYTHONPATH (harness packet parser in front of the real gpg binary) and, in 20% of those runs, without it"],
    "components": {"real": PROC_REAL, "stub": ["document factory (chain world)"]},
}
PLANS["C17"]["must_probe"] = {"all": ["entry_script", "entry_pkg", "entry_climod", "cli_expected_accept", "cli_expected_reject"]}
RULE_CONFIG = ("configuration leg: the verdict vector of a call list built from a small simulated history (raw and OpenPGP-mode envelopes, "
               "junk entries with non-ASCII text and lone surrogates, a root rotation, a key_mgr delegation, the shipped signed fixtures) is "
               "evaluated in-process and in fresh interpreters under pre-import sets x stdout encodings x hash seeds x cwd x -O")
PLANS["C02"]["stages"].append({"world": "config", "runs": {"quick": 24, "thorough": 800}})
PLANS["C02"]["rule"] += "; " + RULE_CONFIG


PLANS["C12"] = {
    "level": "exploration",
    "stages": [{"world": "threads", "runs": {"quick": 600, "thorough": 40000}},
               {"world": "config", "runs": {"quick": 24, "thorough": 800}},
               {"world": "envelope", "runs": {"quick": 600, "thorough": 40000}},
               {"world": "chain", "runs": {"quick": 500, "thorough": 40000}},
               {"world": "deleg", "runs": {"quick": 500, "thorough": 40000}}],
    "rule": ("thread world: 1-4 real threads under a seeded baton scheduler (pre-emption at every traced line, optionally opcode, inside "
             "conda_content_trust/*; switch probability per run from {0.02, 0.1, 0.3, 0.6}) issue 3-8 calls each (10-40 for the "
             "single-thread history profile) over a shared pool with related inputs; every outcome is compared with the same call "
             "evaluated alone on a reset library state and the pool is snapshotted before/after; " + RULE_CONFIG + "; in the envelope, "
             "chain and delegation worlds every validator/verifier call is wrapped in deep typed argument snapshots, wrapping is probed "
             "for aliasing in both directions, and repeated (trusted, offered) pairs must get the same verdict; non-trivial = a fault or "
             "thread switch occurred and both outcomes were seen"),
    "assumptions": [ASSUME_SAMPLE, "pre-emption granularity is the traced line (opcode inside the verifiers on a sample of runs); a real GIL "
                    "switch inside a C call (OpenSSL, json) is not modelled", "<= 4 threads, <= 8 calls per thread"],
    "components": {"real": PROC_REAL + ["real threading.Thread objects; only the choice of who runs is simulated"],
                   "stub": ["baton scheduler", "SimStdout sink"] + ENV_STUB},
    "must_probe": {"all": ["thread_switches", "threads_1", "threads_4", "wrap_alias_checked"]},
}


PLANS["C16"] = {
    "level": "exploration",
    "stages": [{"world": "builder", "runs": {"quick": 2000, "thorough": 150000}},
               {"world": "chain", "runs": {"quick": 600, "thorough": 50000}}],
    "rule": ("builder world: 10-30 builder calls per run under a simulated clock (epoch parked on leap days, year ends, 2038, year 9997; "
             "clock stepped by up to +-30 days between the two clock reads of one call in half of the calls; simulated local-time offset "
             "so that a UTC/local mix-up shows), explicit and default timestamps, one argument corrupted in 25% of the calls (operator "
             "error = plain input corruption), and chain-closure sequences v -> v+1 -> v+2 signed in OpenPGP mode and verified with "
             "verify_root; chain world: every honest root is built by build_root_metadata inside key ceremonies and must be accepted by "
             "clients at quiescence; non-trivial = a clock movement or argument corruption occurred and both outcomes were seen"),
    "assumptions": [ASSUME_SAMPLE, "clock steps between the two reads bounded by 30 days; simulated time stays below year 9999 minus one year "
                    "(the default expiry would overflow the calendar there, which is a property of the calendar, not of the builders)"],
    "components": {"real": REAL, "stub": ["SimClock (datetime subclass installed as common.datetime)", "operator (harness)"] + CHAIN_STUB},
    "must_probe": {"all": ["clock_moved_between_the_two_reads", "default_times_checked", "chain_closure_step"]},
}


PLANS["C10"] = {
    "level": "exploration",
    "stages": [{"world": "pgp", "runs": {"quick": 700, "thorough": 60000}}],
    "rule": ("one evaluation = one simulated run of the envelope world in OpenPGP mode: SimGPG signers with header strings of 1-70000 "
             "bytes (including ones no real OpenPGP emits) and, in 60% of the runs, the real gpg binary (six ed25519 OpenPGP keys: the two "
             "shipped test keys and four committed ones; faked system time = simulated clock) reached through the library's own GPG "
             "signing path (dict and file variants); channel faults from the attack catalogue; direct verify_gpg_signature calls with "
             "tweaked entries ('exactly when' against ledger + independent RFC 8032); exhaustive single-bit sweeps over signature, the "
             "first 64 header bytes, the key and a 96-byte window of the payload; non-trivial = a fault fired and both outcomes were seen"),
    "assumptions": [ASSUME_CRYPTO, ASSUME_SAMPLE, "securesystemslib is replaced by the harness's OpenPGP packet parser in front of the real "
                    "gpg binary; if gpg is unusable the real-GnuPG leg is skipped with a note (SimGPG remains)",
                    "zero-length other_headers cannot be expressed (the entry grammar rejects the empty hex string)"],
    "components": {"real": REAL + ["GnuPG 2.2 binary (gpg --detach-sign, --export) as external signer process"],
                   "stub": ["securesystemslib.gpg.functions (harness packet parser + subprocess)", "SimGPG", "SimFS", "SimStdout sink"]},
    "must_probe": {"all": ["real_gpg_signature", "bit_sweep_flips", "vgs_valid", "vgs_invalid"]},
}

PLANS["C13"]["stages"].append({"world": "validators", "runs": {"quick": 1500, "thorough": 100000}})
PLANS["C13"]["rule"] += ("; validators world: a defensive / confused client calls each of the 24 public checkformat_* / is_* functions on the "
                         "matching part of a received document, on type-confused variants at every JSON path, on non-matching parts and on "
                         "junk, and each of the five verifiers with one argument position corrupted")

PLANS["C07"]["stages"].append({"world": "envelope", "runs": {"quick": 700, "thorough": 40000}})
PLANS["C07"]["stages"].append({"world": "storage", "runs": {"quick": 400, "thorough": 20000}})
PLANS["C07"]["rule"] += ("; plus the envelope and storage worlds with C07 as target: every library-made signature must verify over the *reference* "
                         "canonical bytes of the payload presented at signing time (independent RFC 8032), every file the library writes must equal "
                         "the reference bytes")

for _p, _n in (("C01", 200), ("C02", 150), ("C03", 700), ("C05", 150), ("C06", 150), ("C09", 150), ("C10", 300)):
    PLANS[_p]["stages"].append({"world": "threads", "runs": {"quick": _n, "thorough": _n * 40}})
    PLANS[_p]["rule"] += ("; plus the thread world (1-4 baton-scheduled threads over a shared pool, every outcome compared with the call "
                          "evaluated alone) with this property as target: a verdict that differs from the isolated one is reported here too")

PLANS["C10"]["stages"].append({"world": "config", "runs": {"quick": 16, "thorough": 500}})
PLANS["C10"]["rule"] += ("; plus the configuration leg: OpenPGP-mode positives and negatives evaluated in fresh interpreters, a quarter of them with a "
                         "stand-in securesystemslib importable (a root key holder's environment)")
for _p, _n in (("C04", 150), ("C16", 150), ("C08", 150), ("C11", 150), ("C07", 150)):
    PLANS[_p]["stages"].append({"world": "threads", "runs": {"quick": _n, "thorough": _n * 40}})

PLANS["C02"]["stages"].append({"world": "storage", "runs": {"quick": 400, "thorough": 20000}})
PLANS["C02"]["rule"] += ("; plus the storage world: an envelope that verifies keeps verifying after its file has been rewritten by another tool in "
                         "another spelling of the same JSON value (BOM, UTF-16/32, CRLF, tabs, escapes)")

for _p in ("C01", "C13", "C02"):
    PLANS[_p]["stages"].append({"world": "chain", "runs": {"quick": 300, "thorough": 12000}})
    PLANS[_p]["rule"] += ("; plus the chain world (root ceremonies, rotations, crafted successors): verify_root's two quorum rules are instances "
                          "of this property - a successor short of either rule must be refused with a signature error, one that meets both accepted")

PLANS["C18"]["stages"].append({"world": "threads", "runs": {"quick": 250, "thorough": 10000}})
PLANS["C18"]["rule"] += ("; plus the thread world with the storage theme: several callers sign different files at once, some of them malformed - a signing "
                         "that fails leaves its own file as it was, whatever the others do")
PLANS["C12"]["stages"].append({"world": "storage", "runs": {"quick": 300, "thorough": 15000}})
PLANS["C04"]["stages"].append({"world": "cli", "runs": {"quick": 40, "thorough": 1200}})
PLANS["C03"]["stages"].append({"world": "cli", "runs": {"quick": 40, "thorough": 1200}})
PLANS["C04"]["rule"] += ("; plus the CLI world: verify-metadata over root pairs and odd argument vectors (three and more files) - status 0 only for a pair "
                         "the chain rules accept")

for _p in ("C08", "C11"):
    PLANS[_p]["stages"].append({"world": "cli", "runs": {"quick": 40, "thorough": 1500}})
    PLANS[_p]["rule"] += ("; plus the CLI world on the real file system (sign-artifacts on files reached through symlinked directories and '..', "
                          "under a file-size limit, on files signed before and then patched): status 0 only with a completely and validly signed file")
