"""Which worlds decide which property, with how many runs per tier, and what the evidence says."""
import world_envelope  # noqa: F401

REAL = ["conda_content_trust/*.py (working tree)", "pyca/cryptography + OpenSSL", "json, codecs, io.TextIOWrapper"]
ASSUME_CRYPTO = ("ed25519 is unforgeable and a random corruption of a signature, key or header does not yield "
                 "another valid signature (probability about 2^-128); SHA-256 collisions do not occur")
ASSUME_SAMPLE = "seeded search samples histories and faults; a clean batch is evidence, not proof"
RULE_ENV = ("one evaluation = one simulated run of the envelope world: 1-8 signers with mixed signer "
            "implementations, 10-45 operations (sign / attack from the catalogue / reorder / edit / verify), ledger-"
            "derived oracle; a run is non-trivial if at least one channel fault fired and both an acceptance and a "
            "rejection were observed; distinct = distinct event-log digests among those")

ENV_STUB = ["signers and attacker (harness)", "SimStdout sink", "securesystemslib.gpg.functions (SimGPG stub)"]

PLANS = {}


def _env_plan(prop, quick, thorough, must=()):
    return {
        "level": "exploration",
        "stages": [{"world": "envelope", "runs": {"quick": quick, "thorough": thorough}}],
        "rule": RULE_ENV,
        "assumptions": [ASSUME_CRYPTO, ASSUME_SAMPLE,
                        "bounds: <= 8 keys, <= 3 envelopes per run, payload <= 40 nodes, depth <= 4"],
        "components": {"real": REAL, "stub": ENV_STUB},
        "must_probe": {"all": list(must)},
    }


PLANS["C01"] = _env_plan("C01", 2500, 200000, ["rejected_with_threshold_minus_1", "accepted_with_exactly_threshold"])
PLANS["C02"] = _env_plan("C02", 2500, 200000, ["accepted_despite_junk", "accepted_with_exactly_threshold"])
PLANS["C09"] = _env_plan("C09", 2500, 200000, ["order_independence_checked", "double_sign", "threshold_sweep"])
