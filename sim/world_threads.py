"""W3 / thread world: 1-4 real threads, parked on semaphores and released one at a time (baton passing).
Pre-emption points are sys.settrace line events (optionally opcode events inside verify_signable) in
frames of conda_content_trust/*; a seeded PRNG, or an explicit recorded schedule, decides at every
point whether to switch and to whom.  Real threads, simulated choice of who runs.

Every call's outcome must equal its *isolated* reference (the same call evaluated alone on a freshly
reset library state); the shared pool (keys, payloads, envelopes, trusted metadata) must be unchanged at
the end.  With one thread the same machinery checks sequential histories with repeats and related inputs
(same key + same signature + different payload, same payload + different key).   Target: C12.
"""
import copy
import random
import sys
import threading

import gen
import seams
from core import World, register, Hbytes, HarnessError
from refmodel import pgp_digest, refcanon, snapshot
from seams import SimStdout, exc_family, exc_site, load_library, reset_library_state
from world_envelope import KeyRing

VALIDATORS = ["checkformat_delegating_metadata", "checkformat_signable", "is_signable", "checkformat_delegations",
              "checkformat_any_signature", "is_hex_key", "checkformat_list_of_hex_keys", "is_gpg_signature", "is_signature"]


class Baton:
    def __init__(self, n, decide):
        self.n = n
        self.sems = [threading.Semaphore(0) for _ in range(n)]
        self.finished = threading.Semaphore(0)
        self.done = [False] * n
        self.decide = decide          # decide(point_index, me, runnable) -> thread index
        self.points = 0
        self.switches = []            # [point_index, to_thread]
        self.error = None

    def runnable(self):
        return [i for i in range(self.n) if not self.done[i]]

    def yield_point(self, me):
        self.points += 1
        r = self.runnable()
        if len(r) <= 1:
            return
        nxt = self.decide(self.points, me, r)
        if nxt != me and nxt in r:
            self.switches.append([self.points, nxt])
            self.sems[nxt].release()
            self.sems[me].acquire()

    def finish(self, me):
        self.done[me] = True
        r = self.runnable()
        if not r:
            self.finished.release()
            return
        nxt = self.decide(-self.points - 1, me, r)
        if nxt not in r:
            nxt = r[0]
        self.switches.append([self.points, nxt])
        self.sems[nxt].release()


@register
class ThreadWorld(World):
    name = "threads"
    shrinkable = False

    @classmethod
    def header(cls, rng, tier, prop):
        return {"n_ops": rng.randint(1, 3), "key_seeds": [Hbytes("tkey", rng.getrandbits(64), i).hex() for i in range(3)],
                "pool_seed": rng.getrandbits(32), "encoding": rng.choice(["utf-8", "ascii", "latin-1"]), "target": prop}

    def __init__(self, run, header):
        super().__init__(run, header)
        self.lib = load_library()
        self.keys = KeyRing(self.lib, header["key_seeds"])
        self.out = SimStdout(header.get("encoding", "utf-8"))
        from seams import Patcher, SimFS
        self.patch = Patcher()
        self.fs = SimFS(run)
        self.fs.install_open(self.patch, self.lib)
        self.fs.install_stat(self.patch)
        self.fs.install_rename(self.patch)
        self.fs.install_fd(self.patch)
        self._build_pool()

    def close(self):
        self.patch.restore()

    # ------------------------------------------------------------------ shared pool and call catalogue
    def _build_pool(self):
        lib, keys = self.lib, self.keys
        rng = random.Random(self.h["pool_seed"])
        S, MC = lib.signing, lib.metadata_construction
        pa, pb = gen.gen_payload(rng, True), gen.gen_payload(rng, True)
        if refcanon(pa) == refcanon(pb):
            pb = {"other": pb}
        with self.out:
            Ea = S.wrap_as_signable(pa)
            S.sign_signable(Ea, keys.priv[0]); S.sign_signable(Ea, keys.priv[1])
            Eb = S.wrap_as_signable(pb)
            S.sign_signable(Eb, keys.priv[0])
            # same key, same signature, different payload
            Ex = S.wrap_as_signable(pb)
            Ex["signatures"][keys.pub[0]] = copy.deepcopy(Ea["signatures"][keys.pub[0]])
            # same payload, different key
            Ec = S.wrap_as_signable(pa)
            S.sign_signable(Ec, keys.priv[2])
            Ej = copy.deepcopy(Ea)
            Ej["signatures"]["é\udc80"] = {"signature": "ü"}
            Ej["signatures"][keys.pub[2]] = {"signature": "00" * 64}
            r1 = S.wrap_as_signable(MC.build_root_metadata(1, [keys.pub[0], keys.pub[1]], 2, [keys.pub[2]], 1,
                                                          "2021-01-01T00:00:00Z", "2031-01-01T00:00:00Z"))
            r2 = S.wrap_as_signable(MC.build_root_metadata(2, [keys.pub[1], keys.pub[2]], 1, [keys.pub[2]], 1,
                                                          "2021-01-01T00:00:00Z", "2031-01-01T00:00:00Z"))
            r2bad = copy.deepcopy(r2)
            for E, signers in ((r2, (0, 1)), (r2bad, (0,))):
                for i in signers:
                    hdr = b"\x04\x00\x16\x08\x00\x00" + bytes([i])
                    sig = keys.priv[i].sign(pgp_digest(refcanon(E["signed"]), hdr))
                    E["signatures"][keys.pub[i]] = {"other_headers": hdr.hex(), "signature": sig.hex()}
            km = S.wrap_as_signable(MC.build_delegating_metadata("key_mgr", {"pkg_mgr": {"pubkeys": [keys.pub[0]], "threshold": 1}}, 1,
                                                                 "2021-01-01T00:00:00Z", "2031-01-01T00:00:00Z"))
            S.sign_signable(km, keys.priv[2])
            G = S.wrap_as_signable(pa)
            for i in (0, 2):
                hdr = bytes(rng.getrandbits(8) for _ in range(rng.choice([1, 6, 40])))
                sig = keys.priv[i].sign(pgp_digest(refcanon(pa), hdr))
                G["signatures"][keys.pub[i]] = {"other_headers": hdr.hex(), "signature": sig.hex()}
        Gb = S.wrap_as_signable(pb)
        for i in (1, 2):
            hdr = bytes(rng.getrandbits(8) for _ in range(rng.choice([2, 8, 33])))
            sig = keys.priv[i].sign(pgp_digest(refcanon(pb), hdr))
            Gb["signatures"][keys.pub[i]] = {"other_headers": hdr.hex(), "signature": sig.hex()}
        repodoc = {"info": {"subdir": "noarch"}, "packages": {"a-1.0-0.tar.bz2": {"name": "a", "version": "1.0", "depends": []},
                                                                "b-2.0-1.tar.bz2": {"name": "b", "version": "2.0", "size": 5}},
                   "packages.conda": {"c-0.1-0.conda": {"name": "c", "version": "0.1"}}}
        self.repodocs = {"bad/repodata.json": dict(repodoc, **{"packages.conda": ["not", "a", "mapping"]}),
                         "bad2/repodata.json": {"info": {}, "packages": {"a-1.0-0.tar.bz2": {"name": "a"}}, "packages.conda": None},
                         "noarch/repodata.json": repodoc,
                         "linux-64/repodata.json": dict(repodoc, info={"subdir": "linux-64"},
                                                        packages={"z-9-0.tar.bz2": {"name": "z", "version": "9", "build": "h1"}})}
        unsorted = {"zeta": {"y": 1, "b": [3, {"q": 1, "a": 2}], "a": {"n": 0, "c": None}}, "alpha": [1, 2], "mid": {"z": "z", "k": "k", "a": "a"}}
        with self.out:
            Eu = S.wrap_as_signable(unsorted)
            S.sign_signable(Eu, keys.priv[0])
        # a role file with very many authorised signers, nearly all of whose entries are junk (bounded caches overflow here)
        Ebig = copy.deepcopy(Ea)
        kbig = []
        sizes = [130, 260, 520, 1030]
        hv = [c + 8 for c in gen.harvested(16, 3000, around=False)]
        if hv and rng.random() < 0.6:
            sizes = hv
        for j in range(rng.choice(sizes)):
            hk = "%064x" % rng.getrandbits(256)
            kbig.append(hk)
            Ebig["signatures"][hk] = {"signature": "%0128x" % rng.getrandbits(512)}
        kbig[len(kbig) // 2:len(kbig) // 2] = [keys.pub[0], keys.pub[1]]
        P = self.pool = {"Ebig": Ebig, "kbig": kbig, "pa": pa, "pb": pb, "Gb": Gb, "unsorted": unsorted, "Eu": Eu, "k12": [keys.pub[1], keys.pub[2]], "kdup": [keys.pub[0], keys.pub[1], keys.pub[0]],
                         "k10": [keys.pub[1], keys.pub[0]], "k21": [keys.pub[2], keys.pub[1]], "Ea": Ea, "Eb": Eb, "Ex": Ex, "Ec": Ec, "Ej": Ej, "r1": r1, "r2": r2, "r2bad": r2bad,
                         "km": km, "G": G, "k01": [keys.pub[0], keys.pub[1]], "k0": [keys.pub[0]], "k2": [keys.pub[2]],
                         "k012": list(keys.pub), "dels": r1["signed"]["delegations"]}
        k = keys
        C = [
            ("verify_signable", ("Ea", "k01", 2), {}), ("verify_signable", ("Ea", "k01", 1), {}), ("verify_signable", ("Ea", "k012", 3), {}),
            ("verify_signable", ("Eb", "k0", 1), {}), ("verify_signable", ("Ex", "k0", 1), {}), ("verify_signable", ("Ec", "k2", 1), {}),
            ("verify_signable", ("Ec", "k01", 1), {}), ("verify_signable", ("Ej", "k012", 2), {}), ("verify_signable", ("Ej", "k012", 3), {}),
            ("verify_signable", ("G", "k012", 2), {"gpg": True}), ("verify_signable", ("G", "k012", 3), {"gpg": True}),
            ("verify_signable", ("G", "k012", 1), {"gpg": False}), ("verify_signable", ("Ea", "k012", 1), {"gpg": True}),
            ("verify_root", ("r1", "r2"), {}), ("verify_root", ("r1", "r2bad"), {}), ("verify_root", ("r2", "r1"), {}), ("verify_root", ("r1", "r1"), {}),
            ("verify_delegation", ("=key_mgr", "km", "r2"), {}), ("verify_delegation", ("=key_mgr", "km", "r1"), {}),
            ("verify_delegation", ("=pkg_mgr", "km", "r2"), {}), ("verify_delegation", ("=pkg_mgr", "Eb", "km"), {}),
            ("verify_delegation", ("=pkg_mgr", "Ec", "km"), {}), ("verify_delegation", ("=root", "r2", "r1"), {"gpg": True}),
            ("verify_signature", ("sig:Ea:0", "pub:0", "bytes:pa"), {}), ("verify_signature", ("sig:Ea:0", "pub:0", "bytes:pb"), {}),
            ("verify_signature", ("sig:Eb:0", "pub:0", "bytes:pb"), {}), ("verify_signature", ("sig:Ea:1", "pub:0", "bytes:pa"), {}),
            ("verify_gpg_signature", ("ent:G:0", "=" + k.pub[0], "bytes:pa"), {}), ("verify_gpg_signature", ("ent:G:0", "=" + k.pub[2], "bytes:pa"), {}),
            ("verify_gpg_signature", ("ent:G:2", "=" + k.pub[2], "bytes:pb"), {}),
            ("wrap_as_signable", ("pa",), {}), ("wrap_as_signable", ("pb",), {}), ("canonserialize", ("pa",), {}), ("canonserialize", ("Ea",), {}),
            ("canonserialize", ("r1",), {}), ("sign_private", ("pa", 0), {}), ("sign_private", ("pb", 0), {}), ("sign_private", ("pa", 2), {}),
            ("checkformat_delegating_metadata", ("r1",), {}), ("checkformat_delegating_metadata", ("km",), {}),
            ("checkformat_delegating_metadata", ("Ea",), {}), ("checkformat_delegations", ("dels",), {}), ("is_signable", ("Ej",), {}),
            ("checkformat_list_of_hex_keys", ("k012",), {}), ("checkformat_signable", ("pa",), {}),
            ("checkformat_list_of_hex_keys", ("kdup",), {}), ("checkformat_list_of_hex_keys", ("k10",), {}), ("checkformat_list_of_hex_keys", ("k21",), {}),
            ("verify_signable", ("Gb", "k12", 2), {"gpg": True}), ("verify_signable", ("Gb", "k012", 3), {"gpg": True}),
            ("verify_signable", ("G", "k12", 2), {"gpg": True}), ("verify_gpg_signature", ("ent:Gb:1", "=" + k.pub[1], "bytes:pb"), {}),
            ("verify_gpg_signature", ("ent:Gb:1", "=" + k.pub[1], "bytes:pa"), {}), ("verify_gpg_signature", ("ent:Gb:2", "=" + k.pub[1], "bytes:pb"), {}),
            ("build_root", ("k01", 2, "k2"), {}), ("build_root", ("kdup", 1, "k2"), {}), ("build_root", ("k21", 1, "kdup"), {}),
            ("build_root", ("k10", 2, "k0"), {}),
            ("canonserialize", ("unsorted",), {}), ("canonserialize", ("unsorted",), {}), ("canonserialize", ("r2",), {}), ("canonserialize", ("km",), {}),
            ("sign_private", ("unsorted", 1), {}), ("verify_signable", ("Eu", "k0", 1), {}),
            ("verify_signable", ("Ebig", "kbig", 2), {}), ("verify_signable", ("Ebig", "kbig", 3), {}), ("verify_signable", ("Ebig", "k01", 2), {}),
            ("sign_repo", ("noarch/repodata.json", 0), {}), ("sign_repo", ("linux-64/repodata.json", 0), {}),
            ("sign_repo", ("noarch/repodata.json", 1), {}), ("sign_repo", ("linux-64/repodata.json", 2), {}),
            ("sign_repo", ("bad/repodata.json", 0), {}), ("sign_repo", ("bad2/repodata.json", 1), {}),
        ]
        self.catalogue = C

    def _resolve(self, a):
        P, k = self.pool, self.keys
        if isinstance(a, str):
            if a.startswith("="):
                return a[1:]
            if a.startswith("sig:"):
                _, e, i = a.split(":")
                return P[e]["signatures"][k.pub[int(i)]]["signature"]
            if a.startswith("ent:"):
                _, e, i = a.split(":")
                return P[e]["signatures"][k.pub[int(i)]]
            if a.startswith("pub:"):
                return self.lib.common.PublicKey.from_hex(k.pub[int(a[4:])])
            if a.startswith("bytes:"):
                return refcanon(P[a[6:]])
            return P[a]
        return a

    def _do(self, ci, me=0):
        """Execute catalogue call ci (on behalf of thread `me`); returns a comparable outcome."""
        fn, args, kw = self.catalogue[ci]
        lib = self.lib
        try:
            if fn == "build_root":
                md = lib.metadata_construction.build_root_metadata(1, list(self.pool[args[0]]), args[1], list(self.pool[args[2]]), 1,
                                                                   "2021-01-01T00:00:00Z", "2031-01-01T00:00:00Z")
                return ("return", refcanon(md))
            if fn == "sign_repo":
                # each caller signs its own file; files in different directories share a base name
                path = "w%d/%s" % (me, args[0])       # every caller has its own tree; base names coincide
                before = refcanon(self.repodocs[args[0]])
                self.fs.put(path, before)
                try:
                    lib.signing.sign_all_in_repodata(path, self.keys.seeds[args[1]].hex())
                except Exception as e:  # noqa: BLE001
                    # a signing that fails leaves its file as it was - whatever other callers are doing meanwhile
                    return (type(e).__name__, self.fs.get(path) == before)          # any error class: the signer is no validator (C13 does not speak about it)
                return ("return", self.fs.get(path))
            if fn == "sign_private":
                # thread-private envelope around a *shared* payload object
                E = {"signatures": {}, "signed": self.pool[args[0]]}
                lib.signing.sign_signable(E, self.keys.priv[args[1]])
                return ("return", refcanon(E["signatures"]))
            f = None
            for mod in (lib.authentication, lib.signing, lib.common):
                f = getattr(mod, fn, None)
                if f is not None:
                    break
            v = f(*[self._resolve(a) for a in args], **kw)
            if fn == "canonserialize":
                return ("return", v)
            if fn == "wrap_as_signable":
                return ("return", refcanon(v))
            if isinstance(v, bool):
                return ("return", v)
            return ("return", None)
        except Exception as e:  # noqa: BLE001
            if not exc_family(lib, fn, e):
                return ("BAD:" + type(e).__name__, exc_site(lib, e))
            return (type(e).__name__, None)

    def _references(self):
        """Each call alone, on a freshly reset library state."""
        refs = []
        with self.out:
            for ci in range(len(self.catalogue)):
                reset_library_state()
                refs.append(self._do(ci))
        reset_library_state()
        return refs

    # ------------------------------------------------------------------ executor
    def gen(self, rng):
        nthreads = rng.choice([1, 2, 2, 3, 4] + ([5, 6] if self.run.tier == "thorough" else []))
        nc = len(self.catalogue)
        # half of the runs have a theme: most calls of every thread come from one family, so that the same code is
        # likely to be on several threads' stacks at once
        families = {"storage": ("sign_repo",), "gpg": ("verify_gpg_signature", "verify_root"), "builder": ("build_root", "checkformat_list_of_hex_keys"),
                    "canon": ("canonserialize", "sign_private", "wrap_as_signable"),
                    "tally": ("verify_signable",), "manykeys": ("verify_signable", "verify_signature"), "deleg": ("verify_delegation",), "sign": ("sign_private", "wrap_as_signable", "canonserialize")}
        theme = rng.choice(sorted(families)) if rng.random() < 0.5 else None
        big = [i for i, c in enumerate(self.catalogue) if c[1] and c[1][0] == "Ebig"]
        # the check of a property spends more of its runs on the code that property is about
        favoured = {"C10": ("gpg",), "C03": ("gpg",), "C04": ("gpg",), "C01": ("tally", "gpg"), "C02": ("tally",), "C09": ("sign", "tally"), "C07": ("canon",),
                    "C05": ("deleg",), "C06": ("deleg", "tally"), "C16": ("builder",), "C08": ("storage",), "C11": ("storage", "deleg"),
                    "C18": ("storage",), "C12": ("manykeys", "gpg", "canon", "tally"), "C13": ("manykeys", "tally")}.get(self.h.get("target"))
        if favoured and rng.random() < 0.5:
            theme = rng.choice(favoured)
        themed = [i for i, c in enumerate(self.catalogue) if theme and c[0] in families[theme]]
        if theme == "manykeys":
            themed = big * 3 + [i for i in themed if i not in big]
        # related calls are placed next to each other on purpose
        plans = []
        for _ in range(nthreads):
            n = rng.randint(3, 8) if nthreads > 1 else rng.randint(10, 40)
            plan = []
            while len(plan) < n:
                ci = rng.choice(themed) if themed and rng.random() < 0.75 else rng.randrange(nc)
                if ci in big and theme != "manykeys" and rng.random() < 0.8:
                    continue                        # the very long calls are mostly kept to their own theme
                plan.append(ci)
                if rng.random() < 0.3:
                    plan.append(ci)
            plans.append(plan[:n + 2])
        op = {"op": "threads", "plans": plans, "sched_seed": rng.getrandbits(32),
              "p": rng.choice([0.02, 0.1, 0.3, 0.6]), "opcodes": False}
        if nthreads > 1 and rng.random() < 0.4:
            # long pauses: a caller is descheduled at one of its own pre-emption points for a long time (the classic way to open
            # a check-then-act window) while the others run on with few switches
            op["parks"] = [[rng.randrange(nthreads), rng.randint(1, rng.choice([60, 400, 3000])), rng.choice([300, 5000, 20000, 10**9])]
                           for _ in range(rng.randint(1, 5))]
            op["p"] = rng.choice([0.0, 0.01, 0.05])
        return op

    def apply(self, op):
        run, lib = self.run, self.lib
        refs = self._references()
        plans = op["plans"]
        n = len(plans)
        before = snapshot(self.pool)
        explicit = op.get("switches")
        srng = random.Random(op.get("sched_seed", 0))
        p = op.get("p", 0.1)
        exp = [list(x) for x in explicit] if explicit is not None else None
        pos = [0]

        parks = {}
        for t, k, d in op.get("parks", []):
            parks.setdefault(t, {})[k] = d
        own = {}              # thread -> number of its own pre-emption points so far
        parked = {}           # thread -> global point until which it stays parked

        def decide(point, me, runnable):
            if exp is None and parks:
                gp = abs(point)
                for t in [t for t in parked if parked[t] <= gp]:
                    del parked[t]
                awake = [t for t in runnable if t not in parked] or list(runnable)
                if point > 0 and me >= 0:
                    own[me] = own.get(me, 0) + 1
                    pk = parks.get(me, {}).get(own[me])
                    if pk and len(awake) > 1:
                        parked[me] = gp + pk
                        run.probe("long_pause")
                        others = [t for t in awake if t != me]
                        return others[srng.randrange(len(others))]
                if point < 0 or me not in awake:
                    return awake[srng.randrange(len(awake))]
                if srng.random() < p:
                    others = [t for t in awake if t != me]
                    if others:
                        return others[srng.randrange(len(others))]
                return me
            if exp is not None:
                # explicit recorded schedule, consumed in order: a yield switches only at its recorded point,
                # a finish (point < 0) always consumes the next entry
                if pos[0] < len(exp):
                    q, nxt = exp[pos[0]]
                    if point < 0 or q == point:
                        pos[0] += 1
                        return nxt if nxt in runnable else runnable[0]
                return me if me in runnable else runnable[0]
            if point < 0 or me not in runnable:
                return runnable[srng.randrange(len(runnable))]
            if srng.random() < p:
                others = [t for t in runnable if t != me]
                return others[srng.randrange(len(others))]
            return me

        baton = Baton(n, decide)
        results = [[] for _ in range(n)]
        libdir = lib.dir
        cache = {}
        want_opcodes = False   # opcode events are not stable across interpreter warm-up (adaptive specialisation): line events only

        def make_tracer(me):
            def local(frame, event, arg):
                if event == "line" or event == "opcode":
                    baton.yield_point(me)
                return local

            def glob(frame, event, arg):
                if event != "call":
                    return None
                code = frame.f_code
                r = cache.get(code)
                if r is None:
                    r = code.co_filename.startswith(libdir)
                    cache[code] = r
                if not r:
                    return None
                if want_opcodes and code.co_name in ("verify_signable", "verify_signature", "verify_gpg_signature"):
                    frame.f_trace_opcodes = True
                return local
            return glob

        def body(me):
            baton.sems[me].acquire()
            try:
                sys.settrace(make_tracer(me))
                for ci in plans[me]:
                    results[me].append(self._do(ci, me))
            except BaseException as e:  # noqa: BLE001
                baton.error = e
            finally:
                sys.settrace(None)
                baton.finish(me)

        reset_library_state()
        threads = [threading.Thread(target=body, args=(i,), name="sim-thread-%d" % i, daemon=True) for i in range(n)]
        with self.out:
            for t in threads:
                t.start()
            first = decide(-1, -1, list(range(n)))
            baton.switches.append([0, first])
            baton.sems[first].release()
            if not baton.finished.acquire(timeout=120):
                raise HarnessError("thread world did not finish (deadlock in the baton scheduler?)")
            for t in threads:
                t.join(timeout=10)
        if baton.error is not None:
            raise HarnessError("thread body failed: %r" % (baton.error,))
        run.steps += baton.points
        run.probe("preemption_points", baton.points)
        run.probe("thread_switches", len(baton.switches))
        run.probe("threads_%d" % n)
        run.fault("thread_switch", len(baton.switches))
        run.ev("schedule", len(baton.switches), Hbytes(baton.switches).hex()[:16])
        run.fp("threads", n, op.get("p"), min(len(baton.switches), 50), want_opcodes)
        narrow = dict(op)
        narrow["switches"] = baton.switches
        for me in range(n):
            for ci, got in zip(plans[me], results[me]):
                run.libcalls += 1
                if got[0] == "return":
                    run.accepts += 1
                else:
                    run.rejects += 1
                if got[0].startswith("BAD:"):
                    run.violate(("C13", "C12"), "error-family", "%s raised %s at %s" % (self.catalogue[ci][0], got[0][4:], got[1]),
                                "%s:%s@%s" % (self.catalogue[ci][0], got[0][4:], got[1]))
                if got != refs[ci]:
                    fn, args, kw = self.catalogue[ci]
                    run.narrow = [narrow]
                    also = {"verify_signable": ("C01", "C02", "C09", "C06", "C10"), "verify_root": ("C03", "C04", "C06", "C10"),
                            "verify_delegation": ("C05", "C06", "C11"), "verify_gpg_signature": ("C10", "C01"), "verify_signature": ("C01", "C09"),
                            "canonserialize": ("C07",), "sign_private": ("C09",), "wrap_as_signable": ("C09",),
                            "sign_repo": ("C11", "C08", "C18"), "build_root": ("C16",), "checkformat_list_of_hex_keys": ("C16",),
                            "checkformat_delegating_metadata": ("C16",), "checkformat_delegations": ("C16",)}.get(fn, ())
                    run.violate(("C12",) + also, "verdict-depends-on-history" if n == 1 else "verdict-depends-on-schedule",
                                "%s%r %r gave %s, but %s when evaluated alone (thread %d of %d, %d switches, %d pre-emption points)"
                                % (fn, args, kw, _o(got), _o(refs[ci]), me, n, len(baton.switches), baton.points),
                                "verdict-differs:" + fn)
                    return
        if snapshot(self.pool) != before:
            run.narrow = [narrow]
            run.violate(("C12",), "shared-pool-mutated", "objects shared between callers were modified by validation / verification calls",
                        "shared-pool-mutated")


def _o(x):
    return x[0] if x[1] is None or isinstance(x[1], (bytes, bool)) and len(repr(x[1])) > 60 else repr(x)[:80]
