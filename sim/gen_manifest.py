#!/venv/bin/python
"""Writes /verif/MANIFEST.json from plans.PLANS + the texts below, so that the manifest cannot drift from
what check.py actually runs."""
import json
import os
import sys

HERE = os.path.dirname(os.path.abspath(__file__))
sys.path.insert(0, HERE)
import plans  # noqa: E402

PY = "/venv/bin/python"
CHECK = "/verif/sim/check.py"

TEXT = {
    "C01": ("exploration", "Seeded simulation of multi-signer histories behind a Byzantine channel; every verify_signable verdict is "
            "compared (soundness direction, on every input) with the number of distinct authorised keys whose entry is backed by a "
            "real signing event in the run's ledger, tie-broken by an independent RFC 8032 verifier; plus fail-closed-under-faults legs (exception at a random line inside the "
            "verifier, stdout writes failing with ENOSPC/EPIPE/EIO/closed: may reject, must never accept) and a baton-scheduled thread stage.",
            "No interleaving exists inside the verifier itself; the schedule dimension is the order and partial completion of signing, "
            "corruption, mis-filing, replay and verification events around it. Assumes ed25519 unforgeability.", "sec. 7 C01"),
    "C02": ("exploration", "Same worlds read in the completeness direction: whenever the ledger says threshold distinct authorised keys "
            "validly signed, the call must return, for every signer implementation (library raw, library GPG path over SimGPG, "
            "independent RFC 8032), entry order, junk entry and stdout encoding; shipped fixtures and fresh-interpreter import "
            "states ride along.",
            "Completeness is demanded only on plainly well-formed arguments (int threshold, well-formed key list). securesystemslib "
            "is a stub; the real GnuPG leg lives in C10.", "sec. 7 C02"),
    "C03": ("exploration", "Every root offer in simulated rotation histories (honest, replayed, rolled back, skipping, forged, "
            "sub-threshold, self-appointed, type-flipped, corrupted in transit) is a decision point compared in both directions with "
            "a chain model fed by the ledger (exact-arithmetic version successor, old rule and new rule in OpenPGP mode).",
            "Well-formedness of each document is delegated to the library's own checker (C14 is not claimed); completeness only for "
            "int versions/thresholds.", "sec. 7 C03"),
    "C04": ("exploration", "Invariants over whole histories with 1-2 clients: single increments, only a quorum of the keys in force "
            "moves a client (attacker compromises keys over time), verdicts independent of earlier offers (memo over the run and "
            "re-checks), persisted roots reload equal after crash/restart, bounded liveness at quiescence.",
            "The downstream client loop is a model of conda's; the trust anchor and its cache are assumed intact.", "sec. 7 C04"),
    "C09": ("exploration", "After every signing event by any party: payload unchanged, entry under the signer's public key hex, other "
            "entries byte-identical, immediately verifiable; double-sign idempotent; sorted-order shadow envelope equal; threshold sweep "
            "t<=k accept, k+1 reject; any payload edit that changes the reference bytes voids earlier signatures.",
            "Signature bytes are compared with an independent RFC 8032 signer on a sample.", "sec. 7 C09"),
    "C13": ("exploration", "Global monitor on every validator/verifier call made by any simulated party in every world: outcome must be a "
            "return or an exception of the documented families, with the documented class when exactly one defect is present.",
            "Scope is what the seams can deliver (JSON values after transport/storage faults and the attacker's type-confusion "
            "catalogue); arbitrary Python objects in every argument position are not covered.", "sec. 7 C13"),
    "C16": ("exploration", "Builders run under a simulated clock inside key ceremonies and a dedicated builder profile (clock moved "
            "between the two reads of one call, leap days, year ends, operator-error arguments); output must pass the checker, carry "
            "arguments verbatim and close the chain (verify as successor, authorise its own successor).",
            "The operator-error leg is plain argument corruption and is labelled so.", "sec. 7 C16"),
}

NA = [
    {"property_id": "C14", "reason": "exact accept-set of a pure one-argument predicate; no schedule, clock, I/O, fault or history can "
     "influence or witness it (DESIGN.md section 2); exercised incidentally, crashes reported under C13"},
    {"property_id": "C15", "reason": "exact grammars of pure string/dict predicates; no seam for a simulator to control (DESIGN.md section 2)"},
    {"property_id": "C19", "reason": "pure key conversions and RFC 8032 conformance over all seeds; the only I/O (toy key-file helpers) "
     "cannot decide it (DESIGN.md section 2)"},
]

ENGINES = [
    {"name": "envelope", "path": "sim/world_envelope.py", "kind_free_text": "multi-signer envelope world, Byzantine channel, ledger oracle"},
    {"name": "chain", "path": "sim/world_chain.py", "kind_free_text": "root rotation histories: key holders, repository, attacker, network, clients with persisted roots"},
]


def main():
    extra_text = {}
    try:
        import manifest_text
        extra_text = manifest_text.TEXT
        NA[:] = manifest_text.NA
        ENGINES[:] = manifest_text.ENGINES
    except ImportError:
        pass
    TEXT.update(extra_text)
    checks = []
    for pid in sorted(plans.PLANS):
        if pid not in TEXT:
            continue
        plan = plans.PLANS[pid]
        level, text, note, ref = TEXT[pid]
        assert level == plan["level"], pid
        checks.append({
            "property_id": pid,
            "quick_cmd": "timeout 900 %s %s %s quick" % (PY, CHECK, pid),
            "thorough_cmd": "timeout 7200 %s %s %s thorough" % (PY, CHECK, pid),
            "evidence_file": "/verif/evidence/%s.json" % pid,
            "replay_cmd_template": "%s %s --replay {path}" % (PY, CHECK),
            "engine": ",".join(sorted({st.get("world", st.get("engine", "custom")) for st in plan["stages"]})),
            "level_claimed": {"category": level, "text": text, "design_ref": "DESIGN.md " + ref},
            "level_note": note,
            "technique": plan.get("technique", "deterministic simulation with fault injection: seeded search over operation-and-fault "
                                  "histories, invariants checked during each run against ledger-derived reference models"),
        })
    claimed = {c["property_id"] for c in checks}
    na = [n for n in NA if n["property_id"] not in claimed]
    for i in range(1, 20):
        pid = "C%02d" % i
        if pid not in claimed and pid not in {n["property_id"] for n in na}:
            na.append({"property_id": pid, "reason": "not claimed in this commit: its check is still under construction "
                       "(DESIGN.md section 12 build order); to be claimed once it runs clean and detects its mutants"})
    eng = []
    for e in ENGINES:
        e = dict(e)
        e["serves_properties"] = sorted(p for p in claimed if e["name"] in
                                        {st.get("world", st.get("engine")) for st in plans.PLANS[p]["stages"]})
        eng.append(e)
    man = {
        "version": 1,
        "setup_cmd": "%s /verif/sim/setup_check.py" % PY,
        "hooks": {
            "guard": "CCT_VERIF",
            "enable": "no source hook is needed: every seam is injected from outside (module attributes open/datetime/PrivateKey/"
                      "gpg_funcs, sys.stdout, PYTHONPATH); the guard name is reserved and unused",
            "baseline_off_cmd": "cd /repo && /venv/bin/python -m pytest -ra -q -p no:cacheprovider --timeout=900 "
                                "--continue-on-collection-errors",
            "source_commits": [],
            "add_only": True,
        },
        "engines": eng,
        "checks": checks,
        "notes": "Checks import the working tree of /repo (VERIF_REPO overrides) - nothing is cached between runs. Exit 3 = "
                 "HARNESS-ERROR (never a verdict). Known findings: /verif/KNOWN_FINDINGS.txt; regressions replayed first: "
                 "/verif/regressions/. Properties still being built are listed under not_applicable only if they are final N/A; "
                 "properties not yet registered are simply absent while under construction.",
        "not_applicable": na,
    }
    with open(os.path.join(os.path.dirname(HERE), "MANIFEST.json"), "w") as f:
        json.dump(man, f, indent=1)
    print("MANIFEST.json:", len(checks), "checks;", [n["property_id"] for n in na], "n/a")


if __name__ == "__main__":
    main()
