"""Seeded generators of JSON values, junk, key respellings and type-confusion values.
Everything here draws only from the `rng` it is handed; results are concrete (JSON-able) values."""
import math

ALPHABETS = [
    "abcxyz_-. 019",
    "éüßñ",                 # Latin-1
    "ЖΩאش",                 # Cyrillic, Greek, Hebrew, Arabic
    "中文日本",                 # CJK
    "\U0001f600\U0001f4a3\U00010348",           # non-BMP
    "𐀀\udfff\udbff",                 # lone surrogates (as isolated code units)
    "  \u007f\u0000\u001f\u0085",     # separators, DEL, controls
    "\"\\/\n\r\t\b\f",                          # characters with short escapes
    "０１ａ١٢",           # full-width / Arabic-Indic digits
    "e\u0301A\u030a\u212b\u2126\u1100\u1161\uf900\ufb01",   # not in NFC / NFKC: combining marks, Angstrom, Ohm, jamo, compat forms
]

SPECIAL_FLOATS = [0.0, -0.0, 1.0, -1.0, 0.1, 1e21, 1e22, 1e-7, 1e-6, 123456789012345680.0, 5e-324,
                  2.2250738585072014e-308, 1.7976931348623157e308, 9007199254740992.0,
                  9007199254740994.0, 1e16, 1e15, 0.30000000000000004, 2.5, -1e-300]
NONFINITE = [math.inf, -math.inf, math.nan]


def gen_str(rng, maxlen=12):
    n = rng.choice([0, 1, 1, 2, 3, 5, maxlen])
    if rng.random() < 0.6:
        alpha = ALPHABETS[0]
    else:
        alpha = rng.choice(ALPHABETS)
    return as_parsed("".join(rng.choice(alpha) for _ in range(n)))


def as_parsed(s):
    """A string as a JSON parser can return it: an adjacent high+low surrogate pair is one code point
    (isolated lone surrogates stay)."""
    return s.encode("utf-16-le", "surrogatepass").decode("utf-16-le", "surrogatepass")


def gen_int(rng):
    r = rng.random()
    if r < 0.5:
        return rng.randint(-5, 20)
    if r < 0.7:
        return rng.choice([2**31 - 1, 2**31, 2**53, 2**53 + 1, 2**63, 2**64, -2**63 - 1])
    if r < 0.8:
        return rng.randint(10**30, 10**40)
    if r < 0.83:
        return 10 ** rng.choice([100, 400, 1000])
    return rng.randint(-10**6, 10**6)


def gen_float(rng, nonfinite=True):
    r = rng.random()
    if r < 0.45:
        return rng.choice(SPECIAL_FLOATS)
    if nonfinite and r < 0.55:
        return rng.choice(NONFINITE)
    if r < 0.8:
        return rng.uniform(-1000, 1000)
    return rng.choice([1, -1]) * rng.random() * 10 ** rng.randint(-30, 30)


def gen_scalar(rng, nonfinite=True):
    r = rng.random()
    if r < 0.3:
        return gen_str(rng)
    if r < 0.55:
        return gen_int(rng)
    if r < 0.75:
        return gen_float(rng, nonfinite)
    if r < 0.85:
        return rng.choice([True, False])
    if r < 0.92:
        return None
    return gen_str(rng, 30)


def harvested(lo, hi, around=True):
    """Integer constants found in the code under test within [lo, hi] (see seams._harvest_int_constants), with their neighbours."""
    import seams
    lib = seams._LIB
    cs = [c for c in (getattr(lib, "int_constants", None) or []) if lo <= c <= hi]
    if not around:
        return cs
    out = []
    for c in cs:
        out += [c - 1, c, c, c + 1]
    return [x for x in out if lo <= x <= hi]


# strings that make backtracking pattern matchers explode: a long run that almost matches, then one character that does not
REDOS = ["0.6.0-" + "rc1candidate" * 4 + "!", "1" * 40 + "!", "a" * 40 + "!", "1." * 30 + "x!", "a-" * 30 + "!", "0" + ".0" * 40 + "+", "1" + "a1" * 30 + " ",
         "2021-01-01T00:00:00" + "0" * 40 + "Z!", "ab" * 64 + "!", " " * 60 + "x", "\t" * 50 + "!", "a" * 30 + "\n" + "a" * 30 + "!"]


VOCAB = ["see_also", "signature", "other_headers", "signatures", "signed", "type", "version", "timestamp", "expiration", "delegations", "pubkeys",
         "threshold", "metadata_spec_version", "packages", "packages.conda", "info", "sha256", "md5", "name", "subdir", "fingerprint", "keyid"]


def vocab_value(rng, k):
    hx = lambda n: "".join(rng.choice("0123456789abcdef") for _ in range(n))  # noqa: E731
    if k in ("see_also", "fingerprint", "keyid"):
        f = hx(40)
        return rng.choice([f.upper(), " ".join(f.upper()[i:i + 4] for i in range(0, 40, 4)), f, "0x" + f, f[:20] + "  " + f[20:], f + "\n", f.upper()[:16]])
    if k in ("signature", "other_headers", "sha256", "md5"):
        v = hx(rng.choice([32, 64, 128]))
        return rng.choice([v, v.upper(), v + " ", v[:10] + v[10:].upper()])
    if k in ("timestamp", "expiration"):
        return rng.choice(["2024-02-29T23:59:59Z", "2021-1-5T1:02:03Z", "2021-01-05t01:02:03z", "2021-01-05T01:02:03+00:00", 1700000000, "2021-01-05 01:02:03"])
    if k in ("version", "threshold"):
        return rng.choice([1, 1.0, "1", True, 2, 0, -1, 2**53])
    if k == "type":
        return rng.choice(["root", "key_mgr", "pkg_mgr", "app", "Root", " root", "ROOT", ""])
    if k in ("signatures", "delegations", "packages", "packages.conda", "info", "signed"):
        return rng.choice([{}, [], {hx(64): {"signature": hx(128)}}, {"a-1-0.tar.bz2": {"name": "a"}}, None, "x"])
    if k == "pubkeys":
        return rng.choice([[hx(64)], [hx(64).upper()], [], [hx(64), hx(64)]])
    return rng.choice([gen_str(rng, 6), "noarch", "0.6.0", "v1"])


def gen_json(rng, depth=3, budget=None, nonfinite=True):
    """Random JSON value: depth <= `depth`, at most ~budget[0] nodes."""
    if budget is None:
        budget = [rng.choice([3, 8, 20, 40])]
    budget[0] -= 1
    if depth <= 0 or budget[0] <= 0 or rng.random() < 0.3:
        return gen_scalar(rng, nonfinite)
    if rng.random() < 0.6:
        n = rng.choice([0, 1, 2, 3, 5])
        d = {}
        for _ in range(n):
            if budget[0] <= 0:
                break
            if rng.random() < 0.12:
                # member names from the library's own vocabulary, with values in the spellings other tools produce
                k = rng.choice(VOCAB)
                d[k] = vocab_value(rng, k) if rng.random() < 0.7 else gen_json(rng, depth - 1, budget, nonfinite)
                continue
            d[gen_str(rng, 8)] = gen_json(rng, depth - 1, budget, nonfinite)
        return d
    n = rng.choice([0, 1, 2, 3, 4])
    out = []
    for _ in range(n):
        if budget[0] <= 0:
            break
        out.append(gen_json(rng, depth - 1, budget, nonfinite))
    return out


def gen_deep(rng, depth=None):
    """A narrow value nested 20-250 levels deep (well below the interpreter's recursion limit of 1000; the library's own
    serializer needs about one frame per level)."""
    depth = depth or rng.choice([20, 40, 80, 120, 127, 128, 129, 160, 250])
    v = gen_scalar(rng)
    for i in range(depth):
        v = {gen_str(rng, 3) or "k": v} if rng.random() < 0.5 else [v]
    return v


def gen_payload(rng, nonfinite=True):
    """Payload for an envelope: mostly objects (as real metadata), sometimes any JSON value."""
    r = rng.random()
    if r < 0.02:
        return {"deep": gen_deep(rng)}
    if r < 0.03:
        return {"long": as_parsed(gen_str(rng, 3) * rng.choice([1000, 30000])), "many": list(range(rng.choice([100, 3000])))}
    if r < 0.04:
        # very many empty containers in one document (a repodata file with thousands of `"depends": []`)
        n = rng.choice([300, 1001, 1500, 4000])
        return {"packages": {"p%d" % i: {"depends": [], "constrains": [], "track_features": {}} for i in range(n // 3)}, "removed": [[] for _ in range(rng.choice([0, 10]))]}
    if r < 0.07:
        # a wide record: many members at one level
        d = gen_json(rng, 2, None, nonfinite)
        d = d if isinstance(d, dict) else {"v": d}
        for i in range(rng.choice([6, 8, 12, 40])):
            d["m%02d" % i] = gen_scalar(rng, nonfinite)
        return d
    if r < 0.75:
        d = gen_json(rng, rng.choice([1, 2, 3, 4]), None, nonfinite)
        if not isinstance(d, dict):
            d = {"v": d}
        return d
    return gen_json(rng, rng.choice([0, 1, 2, 3]), None, nonfinite)


def paths(v, prefix=(), out=None, limit=200):
    """All JSON paths (tuples of keys / indices) into v, including the root ()."""
    if out is None:
        out = []
    if len(out) >= limit:
        return out
    out.append(prefix)
    if isinstance(v, dict):
        for k in v:
            paths(v[k], prefix + (k,), out, limit)
    elif isinstance(v, list):
        for i, x in enumerate(v):
            paths(x, prefix + (i,), out, limit)
    return out


def get_path(v, path):
    for p in path:
        v = v[p]
    return v


def set_path(v, path, value):
    """Set value at path inside v (in place); returns False if the path does not exist."""
    try:
        cur = v
        for p in path[:-1]:
            cur = cur[p]
        last = path[-1]
        if isinstance(cur, dict):
            if not isinstance(last, str):
                return False
            cur[last] = value
            return True
        if isinstance(cur, list) and isinstance(last, int) and -len(cur) <= last < len(cur):
            cur[last] = value
            return True
    except (KeyError, IndexError, TypeError):
        return False
    return False


def del_path(v, path):
    try:
        cur = v
        for p in path[:-1]:
            cur = cur[p]
        del cur[path[-1]]
        return True
    except (KeyError, IndexError, TypeError):
        return False


# ------------------------------------------------------------------ key respellings

_FULLWIDTH = {c: chr(0xFF10 + i) for i, c in enumerate("0123456789")}
_FULLWIDTH.update({c: chr(0xFF41 + i) for i, c in enumerate("abcdef")})
_ARABIC = {c: chr(0x0660 + i) for i, c in enumerate("0123456789")}

SPELLINGS = ["nl_for_last", "upper", "lead_space", "trail_space", "trail_nl", "0x", "fullwidth1", "fullwidth_all",
             "mid_space", "arabic1", "first_upper", "trail_tab", "lead_nl", "trail_nul", "bytes_like",
             "zero_width", "plus_00", "underscore", "lead_plus", "nul_mid", "roman_upper_mix", "turkish_i", "nfkc_digit", "superscript"]


def respell(k, how):
    """An alternative spelling of hex string k denoting (to a lenient reader) the same bytes."""
    if how == "upper":
        return k.upper()
    if how == "nl_for_last":
        return k[:-1] + "\n"            # right length, last character a line feed
    if how == "lead_space":
        return " " + k
    if how == "trail_space":
        return k + " "
    if how == "trail_nl":
        return k + "\n"
    if how == "trail_tab":
        return k + "\t"
    if how == "lead_nl":
        return "\n" + k
    if how == "trail_nul":
        return k + "\x00"
    if how == "0x":
        return "0x" + k
    if how == "mid_space":
        return k[:32] + " " + k[32:]
    if how == "zero_width":
        return k[:10] + "​" + k[10:]
    if how == "plus_00":
        return k + "00"
    if how == "underscore":
        return k[:10] + "_" + k[10:]           # int(x, 16) reads through single underscores
    if how == "lead_plus":
        return "+" + k
    if how == "nul_mid":
        return k[:32] + "\x00" + k[32:]
    if how == "roman_upper_mix":
        return "".join(c.upper() if i % 2 else c for i, c in enumerate(k))
    if how == "turkish_i":
        return k[:-1] + "\u0131"               # right length; dotless i upper-cases to I
    if how == "nfkc_digit":
        for i, c in enumerate(k):
            if c in "0123456789":
                return k[:i] + chr(0x1D7CE + int(c)) + k[i + 1:]        # mathematical bold digit: NFKC-equal, str.isdigit() true
        return k
    if how == "superscript":
        for i, c in enumerate(k):
            if c in "123":
                return k[:i] + {"1": "\u00b9", "2": "\u00b2", "3": "\u00b3"}[c] + k[i + 1:]   # isdigit() true, int() refuses
        return k
    if how == "fullwidth_all":
        return "".join(_FULLWIDTH.get(c, c) for c in k)
    if how == "fullwidth1":
        for i, c in enumerate(k):
            if c in _FULLWIDTH:
                return k[:i] + _FULLWIDTH[c] + k[i + 1:]
        return k.upper()
    if how == "arabic1":
        for i, c in enumerate(k):
            if c in _ARABIC:
                return k[:i] + _ARABIC[c] + k[i + 1:]
        return k.upper()
    if how == "first_upper":
        for i, c in enumerate(k):
            if c in "abcdef":
                return k[:i] + c.upper() + k[i + 1:]
        return " " + k
    if how == "bytes_like":
        return "b'" + k + "'"
    return k.upper()


def junk_key(rng, real_keys=()):
    r = rng.random()
    if r < 0.25:
        return gen_str(rng, 20)
    if r < 0.4:
        return as_parsed("".join(rng.choice(rng.choice(ALPHABETS[1:])) for _ in range(rng.choice([1, 3, 64]))))
    if r < 0.55:
        n = rng.choice([62, 63, 65, 66, 128, 40, 2, 0])
        return "".join(rng.choice("0123456789abcdef") for _ in range(n))
    if r < 0.7 and real_keys:
        return respell(rng.choice(list(real_keys)), rng.choice(SPELLINGS))
    if r < 0.8:
        return "".join(rng.choice("0123456789ABCDEF") for _ in range(64))
    if r < 0.9:
        return "".join(rng.choice("0123456789abcdefg") for _ in range(64))
    return "".join(rng.choice("0123456789abcdef") for _ in range(64))  # well-formed but nobody's key


def junk_entry(rng):
    r = rng.random()
    hx = lambda n: "".join(rng.choice("0123456789abcdef") for _ in range(n))  # noqa: E731
    if r < 0.2:
        return gen_json(rng, 2)
    if r < 0.26:
        return {"signature": hx(rng.choice([0, 2, 126, 127, 128, 129, 130]))}
    if r < 0.30:
        # right length, but the last character is a line feed / carriage return / space
        return rng.choice([{"signature": hx(127) + "\n"}, {"signature": hx(128) + "\n"}, {"signature": hx(127) + "\r"},
                           {"signature": hx(128), "other_headers": hx(9) + "\n"}, {"signature": hx(127) + "\n", "other_headers": hx(10)},
                           {"signature": hx(128), "other_headers": hx(10), "see_also": hx(39) + "\n"}])
    if r < 0.4:
        return {"signature": hx(128).upper()}
    if r < 0.5:
        return {"signature": hx(128), "other_headers": hx(rng.choice([0, 1, 2, 10, 70]))}
    if r < 0.55:
        return {"signature": hx(128), "other_headers": hx(20), "see_also": hx(rng.choice([38, 40, 42]))}
    if r < 0.58:
        # containers and byte strings of the lengths the format expects of strings
        n = rng.choice([40, 40, 128, 64])
        odd = rng.choice([list(range(n)), {str(i): i for i in range(n)}, ["a"] * n, tuple(range(n))[:n] and [None] * n])
        f = rng.choice(["see_also", "see_also", "signature", "other_headers"])
        e = {"signature": hx(128), "other_headers": hx(20), "see_also": hx(40)}
        e[f] = odd if not (f == "signature" and n != 128) else [0] * 128
        return e
    if r < 0.65:
        return {"signature": hx(128), "extra": 1}
    if r < 0.72:
        return {"signature": rng.choice([None, 5, 1.5, [], {}, True])}
    if r < 0.8:
        return {"signature": hx(128), "other_headers": rng.choice([None, 5, [], hx(10).upper()])}
    if r < 0.86:
        return rng.choice([None, [], {}, "", 0, True, "signature"])
    if r < 0.92:
        return {"signature": gen_str(rng, 128)}
    return {"signature": hx(128)}  # well-formed, random (invalid) signature


def confuse(rng, old=None):
    """A value of (usually) another JSON kind, for type-confusion faults."""
    r = rng.random()
    if r < 0.12:
        return None
    if r < 0.22:
        return rng.choice([True, False])
    if r < 0.34:
        return rng.choice([0, 1, -1, 2, 2**53, 2**53 + 1, 10**400, 2**63])
    if r < 0.48:
        return rng.choice([math.inf, -math.inf, math.nan, 1.0, 2.0, 1.5, 0.0, -0.0, 9007199254740992.0,
                           1e308, 5e-324, 0.9999999999999999])
    if r < 0.56:
        return rng.choice(["", "root", "key_mgr", "1", "2020-01-01T00:00:00Z", "\ud800", "é"])
    if r < 0.58:
        return rng.choice(REDOS)
    if r < 0.68:
        return []
    if r < 0.78:
        return {}
    if r < 0.86:
        return [old]
    if r < 0.90:
        return {"x": old}
    if r < 0.96:
        # right length, wrong kind: containers and non-hex strings of the lengths the grammars look for
        n = rng.choice([40, 64, 128, 2])
        k = rng.random()
        if k < 0.3:
            return ["0"] * n
        if k < 0.5:
            return {"%d" % i: 0 for i in range(n)}
        if k < 0.75:
            return "".join(rng.choice("ghijkxyz-_ ") for _ in range(n))
        return "".join(rng.choice("0123456789ABCDEF") for _ in range(n))
    return gen_json(rng, 2)
