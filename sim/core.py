"""Simulator core: seeds, run context, event log + digest, generator/executor driver, batch runner,
ddmin shrinker, replay files, known-findings matching, evidence writer.

One integer decides everything: run_seed = H(VERIF_SEED, property, world, run_index).  The generator
alone draws from the PRNG; the executor needs no randomness, so a run *is* its operation list.
"""
import faulthandler
import hashlib
import json
import multiprocessing
import os
import random
import re
import subprocess
import sys
import time
import traceback
from collections import Counter
from concurrent.futures import ProcessPoolExecutor

HERE = os.path.dirname(os.path.abspath(__file__))
VERIF = os.path.dirname(HERE)
OUT = os.environ.get("VERIF_OUT_DIR") or os.path.join(VERIF, "out")
REPLAYS = os.path.join(OUT, "replays")
EVIDENCE = os.environ.get("VERIF_EVIDENCE_DIR") or os.path.join(VERIF, "evidence")
KNOWN_FILE = os.environ.get("VERIF_KNOWN_FILE") or os.path.join(VERIF, "KNOWN_FINDINGS.txt")
REGRESSIONS = os.path.join(VERIF, "regressions")
PYTHON = sys.executable

EXIT_OK, EXIT_VIOLATION, EXIT_HARNESS = 0, 1, 3


def H(*parts):
    h = hashlib.sha256("\x1f".join(str(p) for p in parts).encode("utf-8", "surrogatepass")).digest()
    return int.from_bytes(h[:8], "big")


def Hbytes(*parts):
    return hashlib.sha256("\x1f".join(str(p) for p in parts).encode("utf-8", "surrogatepass")).digest()


def jdump(o):
    return json.dumps(o, sort_keys=True, ensure_ascii=True, separators=(",", ":"))


class HarnessError(Exception):
    pass


# ---------------------------------------------------------------------------------- known findings


class Known:
    """KNOWN_FINDINGS.txt: 'known: property=Cxx inv=<id> sig=<substring> :: what fails' lines suppress
    exactly the matching violation; 'fixed:' lines suppress nothing.  Never written at run time."""

    def __init__(self, path=KNOWN_FILE):
        self.entries = []
        self.fixed = []
        if os.path.exists(path):
            for line in open(path, encoding="utf-8"):
                line = line.strip()
                if line.startswith("known:"):
                    m = re.match(r"known:\s+property=(\S+)\s+inv=(\S+)\s+sig=(\S+)\s+::\s*(.*)$", line)
                    if not m:
                        raise HarnessError("malformed known-finding line: " + line)
                    self.entries.append(m.groups())
                elif line.startswith("fixed:"):
                    self.fixed.append(line)

    def match(self, prop, inv, sig):
        for p, i, s, text in self.entries:
            if p == prop and i == inv and s in (sig or ""):
                return (p, i, s, text)
        return None


# ---------------------------------------------------------------------------------- run context


class Run:
    def __init__(self, target, world, run_seed, tier="quick", known=None, index=-1):
        self.target = target
        self.world = world
        self.run_seed = run_seed
        self.tier = tier
        self.index = index
        self.known = known
        self.log = []
        self.faults = Counter()
        self.probes = Counter()
        self.fps = set()
        self.ops = []
        self.violations = []
        self.known_hits = []
        self.other_alerts = []
        self.sim_time = 0.0
        self.steps = 0
        self.libcalls = 0
        self.stop = False
        self.accepts = 0
        self.rejects = 0

    def ev(self, *parts):
        self.log.append(" ".join(p if isinstance(p, str) else jdump(p) for p in parts))

    def fault(self, kind, n=1):
        self.faults[kind] += n

    def probe(self, name, n=1):
        self.probes[name] += n

    def fp(self, *t):
        self.fps.add(jdump(t))

    def violate(self, prop, inv, detail, sig=None):
        sig = sig or inv
        if isinstance(prop, (tuple, list)):
            prop = self.target if self.target in prop else prop[0]
        rec = {"prop": prop, "inv": inv, "detail": str(detail)[:2000], "sig": sig}
        self.ev("VIOLATION", prop, inv, sig)
        if prop != self.target:
            if len(self.other_alerts) < 20:
                self.other_alerts.append(rec)
            return
        k = self.known.match(prop, inv, sig) if self.known else None
        if k:
            rec["known"] = k[3]
            if len(self.known_hits) < 50:
                self.known_hits.append(rec)
            return
        self.violations.append(rec)
        self.stop = True

    def digest(self):
        h = hashlib.sha256()
        for line in self.log:
            h.update(line.encode("utf-8", "surrogatepass"))
            h.update(b"\n")
        return h.hexdigest()


class World:
    """Base class.  Subclasses: header(rng, tier, prop) -> dict (must contain n_ops), gen(rng) -> op,
    apply(op), finish(), close()."""

    name = "world"

    @classmethod
    def header(cls, rng, tier, prop):
        return {"n_ops": 10}

    def __init__(self, run, header):
        self.run = run
        self.h = header

    def gen(self, rng):
        return None

    def apply(self, op):
        pass

    def history_tag(self, props, first, redo):
        """A verdict the model disagrees with is also a C12 violation when it depends on what the library did before:
        the same call, on the same arguments, after the library's module-level state has been put back to what it
        is right after import, gives another outcome.  (Only evaluated once a violation has been established.)"""
        try:
            import seams
            seams.reset_library_state()
            o2 = redo()
        except Exception:  # noqa: BLE001
            return tuple(props)
        if (o2.ok, o2.cls) != (first.ok, first.cls):
            self.run.probe("verdict_depends_on_history")
            return tuple(props) + (("C12",) if "C12" not in props else ())
        return tuple(props)

    def finish(self):
        pass

    def close(self):
        pass


WORLDS = {}


def register(cls):
    WORLDS[cls.name] = cls
    return cls


PLAUSIBLE_ENV = ["CONDA_QUIET", "CONDA_JSON", "CONDA_DEBUG", "CONDA_VERBOSITY", "CONDA_OFFLINE", "CONDA_ALWAYS_YES", "CI", "DEBUG", "VERBOSE",
                 "QUIET", "NO_COLOR", "CONDA_CONTENT_TRUST_DEBUG", "CCT_DEBUG", "CONDA_NO_PLUGINS", "PYTHONUNBUFFERED"]


def draw_process_config(rng):
    """Process configuration of a run (same for every world): logging verbosity and ecosystem environment switches.
    The library reads none of these today; a change that makes a verdict or an output depend on them is what this
    dimension is for."""
    cfg = {}
    if rng.random() < 0.2:
        cfg["log"] = rng.choice(["DEBUG", "DEBUG", "INFO"])
    if rng.random() < 0.2:
        cfg["env"] = {k: rng.choice(["1", "true", "yes", "3"]) for k in rng.sample(PLAUSIBLE_ENV, rng.randint(1, 4))}
    return cfg


class _ProcessConfig:
    def __init__(self, cfg):
        self.cfg = cfg or {}

    def __enter__(self):
        import logging
        self._env = {}
        for k, v in (self.cfg.get("env") or {}).items():
            self._env[k] = os.environ.get(k)
            os.environ[k] = v
        self._levels = None
        if self.cfg.get("log"):
            root = logging.getLogger()
            pkg = logging.getLogger("conda_content_trust")
            self._levels = (root.level, pkg.level, logging.root.manager.disable)
            logging.disable(logging.NOTSET)
            root.setLevel(getattr(logging, self.cfg["log"]))
            self._handler = logging.NullHandler()
            root.addHandler(self._handler)
        return self

    def __exit__(self, *a):
        import logging
        for k, v in self._env.items():
            if v is None:
                os.environ.pop(k, None)
            else:
                os.environ[k] = v
        if self._levels is not None:
            root = logging.getLogger()
            root.removeHandler(self._handler)
            root.setLevel(self._levels[0])
            logging.getLogger("conda_content_trust").setLevel(self._levels[1])
            logging.disable(self._levels[2])
        return False


def execute(world_cls, run, header, rng=None, ops=None):
    """Generation mode (rng given) or replay mode (ops given).  Library exceptions never escape a
    world's apply(); anything that does is a harness fault."""
    run.ev("seed", run.run_seed, "world", world_cls.name, "target", run.target)
    run.ev("header", header)
    import seams
    seams.reset_library_state()   # no state of the code under test survives from an earlier run
    run.hist_check = bool(header.get("hist_check"))
    pc = _ProcessConfig(header.get("proc"))
    pc.__enter__()
    try:
        w = world_cls(run, header)
    except BaseException:
        pc.__exit__()
        raise
    try:
        if ops is None:
            for _ in range(int(header.get("n_ops", 0))):
                op = w.gen(rng)
                if op is None:
                    break
                op = json.loads(json.dumps(op))  # exactly what a replay file would hold
                run.ops.append(op)
                run.ev("op", op)
                w.apply(op)
                run.steps += 1
                if run.stop:
                    break
        else:
            for op in ops:
                run.ops.append(op)
                run.ev("op", op)
                w.apply(op)
                run.steps += 1
                if run.stop:
                    break
        if not run.stop:
            run.ev("finish")
            w.finish()
    finally:
        try:
            w.close()
        finally:
            pc.__exit__()
    return run


def run_seed_for(seed, prop, world, index):
    return H("run", seed, prop, world, index)


def result_of(run, header, keep_ops):
    r = {
        "index": run.index, "run_seed": run.run_seed, "world": run.world, "digest": run.digest(),
        "n_ops": len(run.ops), "steps": run.steps, "libcalls": run.libcalls, "sim_time": run.sim_time,
        "faults": dict(run.faults), "probes": dict(run.probes), "fps": sorted(run.fps),
        "violations": run.violations, "known_hits": run.known_hits, "other_alerts": run.other_alerts,
        "accepts": run.accepts, "rejects": run.rejects, "status": "ok",
    }
    if getattr(run, "evals", None) is not None:
        r["evals"] = run.evals
        r["nontrivial_n"] = getattr(run, "nontrivial_n", 0)
    if getattr(run, "narrow", None) and run.violations:
        r["narrow_ops"] = run.narrow
    if keep_ops or run.violations:
        r["ops"] = run.ops
        r["header"] = header
    return r


_KEY_TWINS = None


def _key_twins():
    global _KEY_TWINS
    if _KEY_TWINS is None:
        _KEY_TWINS = json.load(open(os.path.join(os.path.dirname(os.path.abspath(__file__)), "keytwins.json")))
    return _KEY_TWINS


def one_run(world_name, prop, tier, seed, index, keep_ops=False, profile=None):
    cls = WORLDS[world_name]
    rs = run_seed_for(seed, prop, world_name, index)
    rng = random.Random(rs)
    known = Known()
    run = Run(prop, world_name, rs, tier, known, index)
    try:
        header = cls.header(rng, tier, prop)
        if profile:
            header.update(profile)
        if getattr(cls, "process_config", True):
            header["proc"] = draw_process_config(rng)
        if world_name in ("envelope", "deleg", "chain", "builder", "validators", "storage") and rng.random() < (0.3 if prop == "C12" else 0.04):
            header["hist_check"] = True       # every library call of this run is also evaluated on freshly imported state (forked copy)
        if isinstance(header.get("key_seeds"), list) and len(header["key_seeds"]) >= 2:
            # one run in eight: two of the signers hold keys whose hex spellings share their first or their last eight
            # characters (found by birthday search, keytwins.json) - short key ids, truncated labels and prefix tables collide
            r = rng.random()
            if r < 0.125:
                pair = rng.choice(_key_twins()["suffix8" if r < 0.07 else "prefix8"])
                i, j = rng.sample(range(len(header["key_seeds"])), 2)
                header["key_seeds"][i], header["key_seeds"][j] = pair
                header["key_twins"] = [i, j]
        execute(cls, run, header, rng=rng)
    except BaseException as e:  # harness fault, never a VIOLATION
        return {"index": index, "run_seed": rs, "world": world_name, "status": "harness_error",
                "error": "".join(traceback.format_exception(type(e), e, e.__traceback__))[-4000:],
                "ops": run.ops, "digest": None}
    return result_of(run, header, keep_ops)


def replay_ops(world_name, prop, header, ops, run_seed=0, tier="quick", use_known=True):
    cls = WORLDS[world_name]
    run = Run(prop, world_name, run_seed, tier, Known() if use_known else None)
    execute(cls, run, header, ops=ops)
    return run


# ---------------------------------------------------------------------------------- batch runner

_SPEC = None


def _worker(chunk):
    faulthandler.dump_traceback_later(900, exit=True)
    out = []
    for (world_name, prop, tier, seed, index, keep, profile) in chunk:
        out.append(one_run(world_name, prop, tier, seed, index, keep, profile))
    faulthandler.cancel_dump_traceback_later()
    return out


def run_batch(specs, workers=None, chunk=None):
    """specs: list of (world, prop, tier, seed, index, keep_ops, profile).  Results in spec order."""
    workers = workers or int(os.environ.get("VERIF_WORKERS", "0")) or min(16, os.cpu_count() or 1)
    if not specs:
        return []
    if workers <= 1 or len(specs) < 4:
        return _worker(specs)
    chunk = chunk or max(1, min(64, len(specs) // (workers * 4) or 1))
    chunks = [specs[i:i + chunk] for i in range(0, len(specs), chunk)]
    ctx = multiprocessing.get_context("fork")
    res = []
    with ProcessPoolExecutor(max_workers=workers, mp_context=ctx) as ex:
        try:
            for part in ex.map(_worker, chunks):
                res.extend(part)
        except Exception as e:  # BrokenProcessPool etc.
            raise HarnessError("worker pool failed: %r" % (e,))
    return res


# ---------------------------------------------------------------------------------- shrinking


def _reproduces(world_name, prop, header, ops, vclass, run_seed):
    try:
        run = replay_ops(world_name, prop, header, ops, run_seed)
    except BaseException:
        return None
    for v in run.violations:
        if (v["prop"], v["inv"], v["sig"])[:len(vclass)] == tuple(vclass):
            return run
    return None


def ddmin(world_name, prop, header, ops, vclass, run_seed, budget_s=30.0):
    """Delta-debugging over the operation list; keeps the same violation class (property, invariant)."""
    t0 = time.time()
    ops = list(ops)
    n = 2
    while len(ops) >= 2 and time.time() - t0 < budget_s:
        size = max(1, len(ops) // n)
        reduced = False
        for i in range(0, len(ops), size):
            cand = ops[:i] + ops[i + size:]
            if cand and _reproduces(world_name, prop, header, cand, vclass, run_seed):
                ops = cand
                n = max(n - 1, 2)
                reduced = True
                break
            if time.time() - t0 > budget_s:
                break
        if not reduced:
            if size == 1:
                break
            n = min(len(ops), n * 2)
    # single-op removal pass
    i = 0
    while i < len(ops) and len(ops) > 1 and time.time() - t0 < budget_s:
        cand = ops[:i] + ops[i + 1:]
        if _reproduces(world_name, prop, header, cand, vclass, run_seed):
            ops = cand
        else:
            i += 1
    return ops


def _simpler(v):
    """Candidate simplifications of a JSON value, simplest first."""
    out = []
    if isinstance(v, dict):
        out.append({})
        ks = list(v)
        if len(ks) > 1:
            out.append({k: v[k] for k in ks[:len(ks) // 2]})
            out.append({k: v[k] for k in ks[len(ks) // 2:]})
        for k in ks[:6]:
            for c in _simpler(v[k])[:2]:
                d = dict(v)
                d[k] = c
                out.append(d)
    elif isinstance(v, list):
        out.append([])
        if len(v) > 1:
            out.append(v[:len(v) // 2])
            out.append(v[len(v) // 2:])
    elif isinstance(v, str) and len(v) > 1:
        out.append("")
        out.append(v[:1])
    elif isinstance(v, (int, float)) and not isinstance(v, bool) and v not in (0, 1):
        out.append(0)
        out.append(1)
    return out


def simplify_ops(world_name, prop, header, ops, vclass, run_seed, budget_s=15.0, keys=("payload", "value", "doc", "rec")):
    """Per-operation simplification after ddmin: smaller payloads / documents while the same violation persists."""
    t0 = time.time()
    ops = [dict(o) for o in ops]
    changed = True
    while changed and time.time() - t0 < budget_s:
        changed = False
        for i, o in enumerate(ops):
            for k in keys:
                if k not in o:
                    continue
                for cand in _simpler(o[k]):
                    if time.time() - t0 > budget_s:
                        return ops
                    trial = [dict(x) for x in ops]
                    trial[i][k] = cand
                    if _reproduces(world_name, prop, header, trial, vclass, run_seed):
                        ops = trial
                        changed = True
                        break
    return ops


def tree_fingerprint(repo):
    h = hashlib.sha256()
    d = os.path.join(repo, "conda_content_trust")
    for fn in sorted(os.listdir(d)):
        if fn.endswith(".py"):
            h.update(fn.encode())
            h.update(open(os.path.join(d, fn), "rb").read())
    return h.hexdigest()[:16]


def write_replay(prop, world_name, seed, res, ops, run, repo):
    os.makedirs(REPLAYS, exist_ok=True)
    v = run.violations[0]
    doc = {
        "property": prop, "world": world_name, "verif_seed": seed, "run_index": res["index"],
        "run_seed": res["run_seed"], "tree": tree_fingerprint(repo), "header": res["header"],
        "ops": ops, "expect": {"prop": v["prop"], "inv": v["inv"], "sig": v["sig"]},
        "detail": v["detail"], "digest": run.digest(), "original_n_ops": len(res["ops"]),
    }
    path = os.path.join(REPLAYS, "%s-%s-%d.json" % (prop, world_name, res["run_seed"]))
    with open(path, "w") as f:
        json.dump(doc, f, indent=1)  # never sort: member order of payloads is part of the trace
    return path, doc


def replay_file(path, quiet=False):
    """Execute a replay file.  Returns (reproduced, run, doc)."""
    import plans  # noqa: F401  (registers worlds)
    doc = json.load(open(path))
    run = replay_ops(doc["world"], doc["property"], doc["header"], doc["ops"], doc.get("run_seed", 0),
                     use_known=not doc.get("ignore_known", False))
    exp = doc["expect"]
    hit = [v for v in run.violations if v["prop"] == exp["prop"] and v["inv"] == exp["inv"]]
    return bool(hit), run, doc


def verify_replay_fresh(path, digest):
    """A fresh interpreter must reproduce the same violation class and event digest."""
    env = dict(os.environ)
    env["PYTHONHASHSEED"] = "0"
    p = subprocess.run([PYTHON, os.path.join(HERE, "check.py"), "--replay", path], capture_output=True,
                       text=True, env=env, timeout=600)
    ok = p.returncode == EXIT_VIOLATION and ("digest=" + digest) in p.stdout
    return ok, p.stdout[-2000:] + p.stderr[-2000:]


# ---------------------------------------------------------------------------------- evidence


def write_evidence(prop, tier, seed, level, results, wall, rule, assumptions, extra=None, samples=None,
                   n_viol=0):
    os.makedirs(EVIDENCE, exist_ok=True)
    faults, probes = Counter(), Counter()
    fps, digests, nontrivial = set(), set(), set()
    sim_time = 0.0
    steps = libcalls = 0
    evals_override = nontrivial_override = 0
    per_world = Counter()
    for r in results:
        if r.get("status") != "ok":
            continue
        per_world[r["world"]] += 1
        faults.update(r["faults"])
        probes.update(r["probes"])
        fps.update(r["fps"])
        digests.add(r["digest"])
        sim_time += r["sim_time"]
        steps += r["steps"]
        libcalls += r["libcalls"]
        if "evals" in r:
            evals_override += r["evals"]
            nontrivial_override += r["nontrivial_n"]
        if r.get("nontrivial", (sum(r["faults"].values()) > 0 and r["accepts"] > 0 and r["rejects"] > 0)):
            nontrivial.add(r["digest"])
    n = sum(per_world.values())
    cov = {
        "evaluations": n,
        "distinct_nontrivial": len(nontrivial),
        "rule": rule,
        "samples": samples or [],
        "distinct_run_digests": len(digests),
        "distinct_fingerprints": len(fps),
        "runs_per_world": dict(per_world),
        "steps": steps,
        "library_calls": libcalls,
        "sim_time_covered_s": sim_time,
        "runs_per_hour": int(n / wall * 3600) if wall > 0 else 0,
        "faults_fired": dict(sorted(faults.items())),
        "probes": dict(sorted(probes.items())),
    }
    if evals_override:
        cov["scenarios"] = n
        cov["scenarios_distinct_nontrivial"] = len(nontrivial)
        cov["evaluations"] = evals_override
        cov["distinct_nontrivial"] = nontrivial_override
    if extra:
        cov.update(extra)
    doc = {"property_id": prop, "tier": tier, "seed": int(seed), "level": level, "coverage": cov,
           "assumptions": assumptions, "wall_s": round(wall, 2), "violations": n_viol}
    path = os.path.join(EVIDENCE, prop + ".json")
    with open(path, "w") as f:
        json.dump(doc, f, indent=1, sort_keys=True)
    return path
