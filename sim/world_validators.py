"""Defensive / confused client (C13): a client that pre-validates what it received - as demo.py does - calls
every public checkformat_* / is_* on the matching part of a document that went through the transport and
storage faults, on type-confused variants of it at every JSON path, and (confused caller) on
non-matching parts; and calls the five verifiers with one argument position corrupted at a time.

Monitor: every call terminates and returns or raises within the documented families; every is_* returns a
bool.  (Whether the accept-set is the right one is C14/C15 and not decided here.)
"""
import copy
import datetime

import gen
from core import World, register, Hbytes
from refmodel import pgp_digest, refcanon
from seams import LibCalls, load_library
from world_envelope import KeyRing

VALIDATORS = ["is_hex_string", "checkformat_hex_string", "is_hex_signature", "is_hex_key", "is_signable", "checkformat_signable",
              "checkformat_byteslike", "checkformat_natural_int", "checkformat_string", "checkformat_expiration_distance",
              "checkformat_hex_key", "checkformat_list_of_hex_keys", "checkformat_utc_isoformat", "is_gpg_fingerprint",
              "checkformat_gpg_fingerprint", "is_gpg_signature", "checkformat_gpg_signature", "is_signature", "checkformat_signature",
              "checkformat_delegation", "checkformat_delegations", "checkformat_delegating_metadata", "checkformat_any_signature",
              "checkformat_key"]


@register
class ValidatorWorld(World):
    name = "validators"

    @classmethod
    def header(cls, rng, tier, prop):
        return {"n_ops": rng.randint(20, 60), "key_seeds": [Hbytes("vkey", rng.getrandbits(64), i).hex() for i in range(3)],
                "encoding": rng.choice(["utf-8", "ascii", "latin-1", "utf-16"])}

    def __init__(self, run, header):
        super().__init__(run, header)
        self.lib = load_library()
        self.calls = LibCalls(run, self.lib, header.get("encoding", "utf-8"))
        k = self.keys = KeyRing(self.lib, header["key_seeds"])
        lib = self.lib
        with self.calls.out:
            root = lib.signing.wrap_as_signable(lib.metadata_construction.build_root_metadata(
                1, [k.pub[0], k.pub[1]], 2, [k.pub[2]], 1, "2021-01-01T00:00:00Z", "2031-01-01T00:00:00Z"))
            root2 = lib.signing.wrap_as_signable(lib.metadata_construction.build_root_metadata(
                2, [k.pub[0], k.pub[1]], 1, [k.pub[2]], 1, "2021-01-01T00:00:00Z", "2031-01-01T00:00:00Z"))
            for i in (0, 1):
                hdr = b"\x04\x00\x16\x08\x00\x00"
                sig = k.priv[i].sign(pgp_digest(refcanon(root2["signed"]), hdr))
                root2["signatures"][k.pub[i]] = {"other_headers": hdr.hex(), "signature": sig.hex(), "see_also": k.fpr[i]}
            km = lib.signing.wrap_as_signable(lib.metadata_construction.build_delegating_metadata(
                "key_mgr", {"pkg_mgr": {"pubkeys": [k.pub[0]], "threshold": 1}}, 1, "2021-01-01T00:00:00Z", "2031-01-01T00:00:00Z"))
            lib.signing.sign_signable(km, k.priv[2])
            env = lib.signing.wrap_as_signable({"name": "pkg", "version": "1.0", "size": 5})
            lib.signing.sign_signable(env, k.priv[0])
        self.docs = {"root": root, "root2": root2, "km": km, "env": env}

    # natural argument of each validator inside a document
    def _natural(self, fn, rng_pick):
        d = self.docs
        k = self.keys
        table = {
            "hex": [k.pub[0], d["env"]["signatures"][k.pub[0]]["signature"], d["root2"]["signatures"][k.pub[0]]["other_headers"], k.fpr[0]],
            "signable": [d["root"], d["km"], d["env"]],
            "int": [1, 2, d["root"]["signed"]["version"]],
            "str": ["root", d["root"]["signed"]["expiration"]],
            "keys": [d["root"]["signed"]["delegations"]["root"]["pubkeys"]],
            "time": [d["root"]["signed"]["timestamp"], d["root"]["signed"]["expiration"]],
            "gpgsig": [d["root2"]["signatures"][k.pub[0]]],
            "sig": [d["env"]["signatures"][k.pub[0]], d["root2"]["signatures"][k.pub[1]]],
            "deleg": [d["root"]["signed"]["delegations"]["root"]],
            "delegs": [d["root"]["signed"]["delegations"], d["km"]["signed"]["delegations"]],
            "md": [d["root"], d["root2"], d["km"]],
        }
        kind = {"is_hex_string": "hex", "checkformat_hex_string": "hex", "is_hex_signature": "hex", "is_hex_key": "hex", "checkformat_hex_key": "hex",
                "is_gpg_fingerprint": "hex", "checkformat_gpg_fingerprint": "hex", "is_signable": "signable", "checkformat_signable": "signable",
                "checkformat_byteslike": "hex", "checkformat_natural_int": "int", "checkformat_string": "str", "checkformat_expiration_distance": "int",
                "checkformat_list_of_hex_keys": "keys", "checkformat_utc_isoformat": "time", "is_gpg_signature": "gpgsig",
                "checkformat_gpg_signature": "gpgsig", "is_signature": "sig", "checkformat_signature": "sig", "checkformat_any_signature": "sig",
                "checkformat_delegation": "deleg", "checkformat_delegations": "delegs", "checkformat_delegating_metadata": "md",
                "checkformat_key": "hex"}[fn]
        vals = table[kind]
        return copy.deepcopy(vals[rng_pick % len(vals)])

    def gen(self, rng):
        r = rng.random()
        if r < 0.65:
            fn = rng.choice(VALIDATORS)
            v = self._natural(fn, rng.randrange(8))
            mode = rng.choice(["natural", "confused", "confused", "path", "path", "other_part", "junk", "fields"])
            if mode == "fields":
                # drop a subset of the members of the document (or of its signed part)
                tgt = v["signed"] if isinstance(v, dict) and isinstance(v.get("signed"), dict) and rng.random() < 0.8 else v
                if isinstance(tgt, dict) and tgt:
                    for kk in rng.sample(sorted(tgt), rng.randint(1, min(3, len(tgt)))):
                        del tgt[kk]
                else:
                    mode = "confused"
            if mode == "confused":
                v = gen.confuse(rng, v)
            elif mode == "path":
                done = False
                for _ in range(rng.choice([1, 1, 2, 3])):          # one to three faults in the same document
                    ps = [p for p in gen.paths(v) if p] if isinstance(v, (dict, list)) else []
                    if not ps:
                        break
                    p = list(rng.choice(ps))
                    if rng.random() < 0.3:
                        gen.del_path(v, p)
                    else:
                        gen.set_path(v, p, gen.confuse(rng, gen.get_path(v, p)))
                    done = True
                if not done:
                    v = gen.confuse(rng, v)
            elif mode == "other_part":
                other = self._natural(rng.choice(VALIDATORS), rng.randrange(8))
                v = other
            elif mode == "junk":
                v = rng.choice([gen.gen_json(rng, 3), gen.junk_key(rng, self.keys.pub), gen.junk_entry(rng)])
            return {"op": "validate", "fn": fn, "value": v}
        # a verifier with one argument position corrupted
        which = rng.choice(["verify_signable", "verify_delegation", "verify_root", "verify_signature", "verify_gpg_signature"])
        pos = rng.randrange(4)
        how = rng.choice(["confuse", "path", "path", "junk"])
        return {"op": "verifier", "fn": which, "pos": pos, "how": how, "pick": rng.randrange(1000),
                "value": gen.confuse(rng, None) if how != "junk" else gen.gen_json(rng, 3), "seed": rng.getrandbits(30)}

    def apply(self, op):
        getattr(self, "op_" + op["op"])(op)

    def op_validate(self, op):
        fn, v = op["fn"], op["value"]
        if fn == "checkformat_key" and isinstance(v, str) and len(v) == 64:
            try:
                v = self.lib.common.PublicKey.from_hex(v)
            except (TypeError, ValueError):
                pass
        if fn == "checkformat_byteslike" and isinstance(v, str) and op.get("value") and len(v) % 2 == 0:
            try:
                v = bytes.fromhex(v)
            except ValueError:
                pass
        if fn == "checkformat_expiration_distance" and isinstance(v, int) and not isinstance(v, bool) and abs(v) < 10**6:
            v = datetime.timedelta(days=v)
        o = self.calls.call(fn, v)
        self.run.probe("validator_" + ("accept" if o.ok else "reject"))
        if o.ok:
            self.run.accepts += 1
        else:
            self.run.rejects += 1
        self.run.fp("val", fn, o.cls, type(op["value"]).__name__)
        if fn.startswith("is_") and o.ok and type(o.value) is not bool:
            self.run.violate(("C13",), "predicate-not-bool", "%s returned %r" % (fn, type(o.value).__name__), "predicate-not-bool:" + fn)
        self.run.fault("confused_argument")

    def op_verifier(self, op):
        import random
        d, k = self.docs, self.keys
        rng = random.Random(op["seed"])
        fn = op["fn"]
        data = refcanon(d["env"]["signed"])
        base = {
            "verify_signable": [copy.deepcopy(d["env"]), [k.pub[0]], 1, False],
            "verify_delegation": ["key_mgr", copy.deepcopy(d["km"]), copy.deepcopy(d["root2"]), False],
            "verify_root": [copy.deepcopy(d["root"]), copy.deepcopy(d["root2"])],
            "verify_signature": [d["env"]["signatures"][k.pub[0]]["signature"], self.lib.common.PublicKey.from_hex(k.pub[0]), data],
            "verify_gpg_signature": [copy.deepcopy(d["root2"]["signatures"][k.pub[0]]), k.pub[0], refcanon(d["root2"]["signed"])],
        }[fn]
        pos = op["pos"] % len(base)
        if op["how"] == "path" and isinstance(base[pos], (dict, list)):
            ps = [p for p in gen.paths(base[pos]) if p]
            p = list(ps[op["pick"] % len(ps)])
            if op["pick"] % 7 == 0:
                gen.del_path(base[pos], p)
            else:
                gen.set_path(base[pos], p, op["value"] if op["value"] is not None else gen.confuse(rng, gen.get_path(base[pos], p)))
        else:
            base[pos] = op["value"]
        o = self.calls.call(fn, *base)
        self.run.probe("verifier_" + ("accept" if o.ok else "reject"))
        self.run.fp("ver", fn, pos, o.cls)
        self.run.fault("corrupted_verifier_argument")
