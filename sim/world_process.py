"""W4 / process world: real OS processes in fresh interpreters under seeded configurations.

CanonWorld  ("canon")   C07: canonical bytes of a seeded corpus are identical across hash seeds, locales, UTF-8 mode,
                        time zones, working directories and -O, and equal the reference serializer; in-process monitors
                        for order independence, parse/serialize fixpoint and injectivity ride along.
ConfigWorld ("config")  C02 / C12 configuration legs: the verdict vector of a call list (built from a small simulated
                        history: honest envelopes, OpenPGP-mode roots, junk entries with non-ASCII text, shipped fixtures)
                        is identical in fresh interpreters under pre-import sets x stdout encodings x hash seeds x cwd.
CliWorld    ("cli")     C17: every entry point x file pair x environment; exit status 0 and a success line on stdout iff
                        the in-process library verdict on the same files is acceptance.
"""
import copy
import json
import random
import os
import shutil
import subprocess
import sys

import gen
from core import World, register, Hbytes, HarnessError, H
from refmodel import refcanon, typed_eq, snapshot, payload_hash, ref_is_hex
from seams import LibCalls, load_library, REPO
from world_chain import ChainWorld, digest
import child as childmod

HERE = os.path.dirname(os.path.abspath(__file__))
PY = sys.executable
SCRATCH_ROOT = "/dev/shm"
LOCALES = [("C", "0"), ("C", "1"), ("C.utf8", "0"), ("POSIX", "0"), ("C.utf8", "1")]
TZS = ["UTC", "Asia/Kolkata", "America/St_Johns", "Pacific/Kiritimati", ""]
PREIMPORTS = ["", "json,hashlib", "cryptography.hazmat.backends", "cryptography.x509", "ssl", "decimal,locale"]


def gen_cfg(rng, scratch_ok=True):
    loc, utf8 = rng.choice(LOCALES)
    cfg = {"hashseed": str(rng.choice([0, 1, 2, 42, rng.randint(0, 4294967295)])), "lc_all": loc, "utf8": utf8,
           "tz": rng.choice(TZS), "cwd": rng.choice(["scratch", "/", "repo"]), "opt": rng.random() < 0.2, "werror": rng.random() < 0.25, "sslib": rng.random() < 0.25,
           "ioenc": rng.choice(["", "", "", "latin-1", "ascii", "utf-16"])}
    from core import PLAUSIBLE_ENV
    if rng.random() < 0.25:
        cfg["penv"] = {k: rng.choice(["1", "true", "yes"]) for k in rng.sample(PLAUSIBLE_ENV, rng.randint(1, 3))}
    if rng.random() < 0.2:
        cfg["plog"] = "DEBUG"
    if rng.random() < 0.2:
        # the library is first imported lazily while the host application captures stdout / stderr (plugin loader, test runner),
        # and that capture stream is closed afterwards
        cfg["import_capture"] = rng.choice(["closed", "closed", "open"])
    return cfg


def child_env(cfg, extra=None):
    env = {"PATH": os.environ.get("PATH", "/usr/bin:/bin"), "HOME": os.environ.get("HOME", "/root"),
           "PYTHONPATH": REPO, "VERIF_REPO": REPO, "PYTHONDONTWRITEBYTECODE": "1",
           "PYTHONHASHSEED": cfg["hashseed"], "LC_ALL": cfg["lc_all"], "PYTHONUTF8": cfg["utf8"]}
    if cfg["lc_all"] in ("C", "POSIX") and cfg["utf8"] == "0":
        env["PYTHONCOERCECLOCALE"] = "0"
    if cfg.get("tz"):
        env["TZ"] = cfg["tz"]
    if cfg.get("ioenc"):
        env["PYTHONIOENCODING"] = cfg["ioenc"]
    if cfg.get("werror"):
        env["PYTHONWARNINGS"] = "error"
    if cfg.get("sslib"):
        # a root key holder's environment: the optional dependency is importable (stand-in package)
        env["PYTHONPATH"] = REPO + os.pathsep + os.path.join(HERE, "stubs")
    for k, v in (cfg.get("penv") or {}).items():
        env[k] = v
    if cfg.get("plog"):
        env["VERIF_CHILD_LOG"] = cfg["plog"]
    if cfg.get("import_capture"):
        env["VERIF_IMPORT_CAPTURE"] = cfg["import_capture"]
    if extra:
        env.update(extra)
    return env


def cwd_of(cfg, scratch):
    return {"scratch": scratch, "/": "/", "repo": REPO}.get(cfg.get("cwd"), scratch)


class ProcBase(World):
    shrinkable = True

    def _scratch(self):
        d = os.path.join(SCRATCH_ROOT, "cct-proc-%d-%d" % (os.getpid(), self.run.run_seed % 10**9))
        if os.path.exists(d):
            shutil.rmtree(d)
        os.makedirs(d)
        self.scratch = d
        return d

    def close(self):
        if getattr(self, "scratch", None):
            shutil.rmtree(self.scratch, ignore_errors=True)

    def spawn(self, argv, cfg, extra_env=None, stdin=None):
        flags = ["-O"] if cfg.get("opt") else []
        cmd = [PY] + flags + argv if argv[0] != "@script" else argv[1:]
        p = subprocess.run(cmd, env=child_env(cfg, extra_env), cwd=cwd_of(cfg, self.scratch), capture_output=True, timeout=120)
        self.run.probe("process_spawned")
        return p


# ======================================================================================= C07


@register
class CanonWorld(ProcBase):
    name = "canon"

    @classmethod
    def header(cls, rng, tier, prop):
        return {"n_ops": rng.randint(2, 4), "corpus_seed": rng.getrandbits(32), "n": 120 if tier == "quick" else 400}

    def __init__(self, run, header):
        super().__init__(run, header)
        self.lib = load_library()
        self._scratch()
        self.ref = None

    def _reference(self):
        """In-process digest + the monitors (reference bytes, fixpoint, injectivity)."""
        if self.ref is not None:
            return self.ref
        import hashlib
        run = self.run
        cs = self.lib.common.canonserialize
        h = hashlib.sha256()
        seen = {}
        vals = childmod.corpus(self.h["corpus_seed"], self.h["n"])
        n_corpus = len(vals)
        # constructed near-collisions
        vals += ["1", 1, 1.0, True, "true", None, "null", [], {}, "[]", "{}", [1], [1.0], ["1"], {"a": 1}, {"a": 1.0},
                 0, -0.0, 0.0, False, "", " ", {"": 0}, {"": False}, "é", "é", "\ud83d", "\U0001f600", 1e22, 10**22]
        for i, v in enumerate(vals):
            try:
                b = cs(v)
            except Exception as e:  # noqa: BLE001
                run.violate(("C07",), "serialize-failed", "canonserialize raised %s: %s for JSON value %r" % (type(e).__name__, str(e)[:100], _short(v)),
                            "serialize-failed:" + type(e).__name__)
                return None
            if i < n_corpus:
                h.update(len(b).to_bytes(8, "big"))
                h.update(b)
            if b != refcanon(v):
                run.violate(("C07",), "not-reference-bytes", "canonserialize differs from the published format for %r: %r vs %r"
                            % (_short(v), b[:80], refcanon(v)[:80]), "not-reference-bytes")
                return None
            try:
                back = json.loads(b)
            except ValueError as e:
                run.violate(("C07",), "not-parsable", "canonical bytes do not parse: %r" % (e,), "not-parsable")
                return None
            try:
                again = cs(back)
            except Exception:  # noqa: BLE001
                again = None
            if not typed_eq(back, v) or again != b:
                run.violate(("C07",), "not-fixpoint", "parsing the canonical bytes does not give the value back / re-serialize identically: %r" % (_short(v),),
                            "not-fixpoint")
                return None
            prev = seen.get(b)
            if prev is not None and not typed_eq(prev, v):
                run.violate(("C07",), "not-injective", "two different JSON values share canonical bytes: %r and %r" % (_short(prev), _short(v)),
                            "not-injective")
                return None
            seen[b] = v
            run.probe("value_serialized")
        # a serialization that fails part-way must not leave anything behind for the next one
        deep = cur = []
        for _ in range(50000):
            nxt = []
            cur.append(nxt)
            cur = nxt
        circ = {"a": [1, 2]}
        circ["a"].append(circ)
        for bad in (circ, {"n": [1, 10 ** 5000]}, {"k": deep}, {"x": {1, 2}}, {1: "a", "b": 2},
                    {"z": 1, "a": {"m": {2: "int key", "k": 1}, "b": 2}, "c": [3]}, {"outer": {"zz": 0, "inner": {"x": {7, 8}, "a": 1}}}):
            shape = snapshot(bad) if bad is not circ and "k" not in bad else None
            try:
                cs(bad)
            except Exception:  # noqa: BLE001
                run.probe("failed_serialization_then_retry")
            if shape is not None and snapshot(bad) != shape:
                run.violate(("C07", "C12"), "serializer-changed-its-argument",
                            "a serialization that failed left the caller's object changed (members lost or reordered)",
                            "serializer-changed-its-argument")
                return None
            for v in ({"after": ["failure", 1.5, None]}, "x"):
                try:
                    b = cs(v)
                except Exception as e:  # noqa: BLE001
                    b = repr(e).encode()
                if b != refcanon(v):
                    run.violate(("C07",), "stale-state-after-failed-serialization",
                                "after a serialization that failed, the next value serializes to %r instead of %r" % (b[:80], refcanon(v)[:80]),
                                "stale-state-after-failed-serialization")
                    return None
        del deep, cur
        # a caller that keeps building one object and serializes it after every change (sizes on both sides of any plausible "large" cut-off)
        rr = random.Random(self.h["corpus_seed"] ^ 0xB16)
        for size in (rr.choice([10, 900]), rr.choice([5000, 40000]), rr.choice([70000, 140000]), rr.choice([300000, 1200000])):
            obj = {"packages": {"p%d" % i: {"sha256": "%064x" % rr.getrandbits(256), "size": i} for i in range(max(1, size // 110))}, "info": {"subdir": "noarch"}}
            for step in range(4):
                try:
                    b = cs(obj)
                except Exception as e:  # noqa: BLE001
                    b = repr(e).encode()
                if b != refcanon(obj):
                    run.violate(("C07", "C12"), "stale-bytes-for-changed-object",
                                "an object of about %d bytes, changed in place between two serializations, serialized to the bytes of its earlier state" % size,
                                "stale-bytes-for-changed-object")
                    return None
                k = rr.choice(list(obj["packages"]))
                if step == 0:
                    obj["packages"][k]["size"] += 1
                elif step == 1:
                    obj["info"]["subdir"] = "linux-64"
                else:
                    obj["packages"][k]["sha256"] = "%064x" % rr.getrandbits(256)
                run.probe("serialize_mutate_serialize")
        self.ref = h.hexdigest()
        return self.ref

    def gen(self, rng):
        return {"op": "spawn", "cfg": gen_cfg(rng)}

    def apply(self, op):
        ref = self._reference()
        if ref is None:
            return
        cfg = op["cfg"]
        p = self.spawn([os.path.join(HERE, "child.py"), "canon", str(self.h["corpus_seed"]), str(self.h["n"])], cfg)
        self.run.fault("config_" + cfg["lc_all"] + "_utf8" + cfg["utf8"])
        self.run.fp("canon", cfg["lc_all"], cfg["utf8"], cfg["tz"], cfg["cwd"], cfg["opt"], cfg["ioenc"])
        if p.returncode != 0:
            self.run.violate(("C07",), "child-failed", "serializing the corpus failed under %r: %s" % (cfg, p.stderr.decode("utf-8", "replace")[-400:]),
                             "child-failed")
            return
        try:
            out = p.stdout.decode("utf-16" if cfg.get("ioenc") == "utf-16" else "utf-8", "replace")
            r = json.loads(out.strip().splitlines()[-1])
        except (ValueError, IndexError):
            raise HarnessError("child output unreadable: %r" % p.stdout[-300:])
        self.run.ev("child", r["digest"], r["stdout_encoding"])
        self.run.accepts += 1
        self.run.rejects += 1
        if r["digest"] != ref or r["ref_mismatch"] or r["order_mismatch"] or r["text_mismatch"]:
            self.run.violate(("C07",), "config-dependent-bytes",
                             "canonical bytes differ under configuration %r (digest %s vs %s; reference mismatches %d, insertion-order "
                             "mismatches %d, parsed-text-order mismatches %d)" % (cfg, r["digest"][:12], ref[:12], r["ref_mismatch"],
                                                                                  r["order_mismatch"], r["text_mismatch"]),
                             "config-dependent-bytes")


def _short(v):
    s = repr(v)
    return s if len(s) < 120 else s[:117] + "..."


# ======================================================================================= config legs (C02 / C12)


@register
class ConfigWorld(ProcBase):
    name = "config"

    @classmethod
    def header(cls, rng, tier, prop):
        return {"n_ops": rng.randint(2, 3), "key_seeds": [Hbytes("pkey", rng.getrandbits(64), i).hex() for i in range(3)],
                "scn_seed": rng.getrandbits(32)}

    def __init__(self, run, header):
        super().__init__(run, header)
        self.lib = load_library()
        self.calls = LibCalls(run, self.lib, "utf-8")
        self._scratch()
        self.scn = None

    def _scenario(self):
        """Call list from a small simulated history.  All 'must accept' calls are flagged."""
        if self.scn is not None:
            return self.scn
        import random
        from world_envelope import KeyRing
        from refmodel import pgp_digest
        rng = random.Random(self.h["scn_seed"])
        lib = self.lib
        keys = KeyRing(lib, self.h["key_seeds"])
        calls = []

        def raw_env(payload, signers):
            E = lib.signing.wrap_as_signable(payload)
            for i in signers:
                lib.signing.sign_signable(E, keys.priv[i])
            return E

        def pgp_sign(E, i, hdr=b"\x04\x00\x16\x08\x00\x00"):
            sig = keys.priv[i].sign(pgp_digest(refcanon(E["signed"]), hdr))
            E["signatures"][keys.pub[i]] = {"other_headers": hdr.hex(), "signature": sig.hex()}

        for _ in range(3):
            p = gen.gen_payload(rng, True)
            E = raw_env(p, [0, 1])
            calls.append({"fn": "verify_signable", "args": [E, [keys.pub[0], keys.pub[1]], 2], "must": True})
            J = copy.deepcopy(E)
            J["signatures"][gen.junk_key(rng, keys.pub)] = gen.junk_entry(rng)
            J["signatures"]["é中\U0001f600"] = {"signature": "ü"}
            J["signatures"]["\udc80"] = ["\udfff"]
            calls.append({"fn": "verify_signable", "args": [J, [keys.pub[0], keys.pub[1]], 2], "must": True})
            calls.append({"fn": "verify_signable", "args": [J, [keys.pub[2]], 1], "must": False})
            G = lib.signing.wrap_as_signable(p)
            pgp_sign(G, 0)
            pgp_sign(G, 2, bytes(rng.getrandbits(8) for _ in range(rng.choice([1, 35, 200]))))
            G["signatures"]["Ж"] = {"other_headers": "é", "signature": 5}
            calls.append({"fn": "verify_signable", "args": [G, [keys.pub[0], keys.pub[2]], 2], "kw": {"gpg": True}, "must": True})
            calls.append({"fn": "verify_signable", "args": [G, [keys.pub[0], keys.pub[2]], 2], "kw": {"gpg": False}, "must": False})
        # negatives: every one of these must be rejected identically in every configuration
        p = gen.gen_payload(rng, True)
        G = lib.signing.wrap_as_signable(p)
        pgp_sign(G, 0)
        pgp_sign(G, 1)
        bad = copy.deepcopy(G)
        sg = bad["signatures"][keys.pub[1]]["signature"]
        bad["signatures"][keys.pub[1]]["signature"] = sg[:-1] + ("0" if sg[-1] != "0" else "1")
        calls.append({"fn": "verify_signable", "args": [bad, [keys.pub[0], keys.pub[1]], 2], "kw": {"gpg": True}, "must": False})
        bad2 = copy.deepcopy(G)
        bad2["signed"] = {"other": p}
        calls.append({"fn": "verify_signable", "args": [bad2, [keys.pub[0], keys.pub[1]], 1], "kw": {"gpg": True}, "must": False})
        bad3 = copy.deepcopy(G)
        bad3["signatures"][keys.pub[2]] = copy.deepcopy(bad3["signatures"][keys.pub[0]])     # mis-filed
        del bad3["signatures"][keys.pub[1]]
        calls.append({"fn": "verify_signable", "args": [bad3, list(keys.pub), 2], "kw": {"gpg": True}, "must": False})
        bad4 = copy.deepcopy(G)
        bad4["signatures"][keys.pub[0].upper()] = copy.deepcopy(bad4["signatures"][keys.pub[0]])  # second spelling
        del bad4["signatures"][keys.pub[1]]
        calls.append({"fn": "verify_signable", "args": [bad4, [keys.pub[0], keys.pub[1]], 2], "kw": {"gpg": True}, "must": False})
        R = raw_env(p, [0])
        calls.append({"fn": "verify_signable", "args": [R, [keys.pub[0], keys.pub[1]], 2], "must": False})
        calls.append({"fn": "verify_signable", "args": [R, [keys.pub[1]], 1], "must": False})
        calls.append({"fn": "verify_signable", "args": [R, [keys.pub[0]], 0], "must": False})
        calls.append({"fn": "verify_signable", "args": [R, [keys.pub[0].upper()], 1], "must": False})
        calls.append({"fn": "verify_gpg_signature", "args": [G["signatures"][keys.pub[0]], keys.pub[1], "@bytes:" + refcanon(p).hex()], "must": False})
        calls.append({"fn": "verify_gpg_signature", "args": [G["signatures"][keys.pub[0]], keys.pub[0], "@bytes:" + refcanon(p).hex()], "must": True})
        calls.append({"fn": "verify_gpg_signature", "args": [bad["signatures"][keys.pub[1]], keys.pub[1], "@bytes:" + refcanon(p).hex()], "must": False})
        # a root rotation and a key_mgr delegation
        mc = lib.metadata_construction
        r1 = lib.signing.wrap_as_signable(mc.build_root_metadata(1, [keys.pub[0], keys.pub[1]], 2, [keys.pub[2]], 1,
                                                                  "2021-01-01T00:00:00Z", "2031-01-01T00:00:00Z"))
        r2 = lib.signing.wrap_as_signable(mc.build_root_metadata(2, [keys.pub[1], keys.pub[2]], 1, [keys.pub[2]], 1,
                                                                  "2021-01-01T00:00:00Z", "2031-01-01T00:00:00Z"))
        pgp_sign(r2, 0)
        pgp_sign(r2, 1)
        calls.append({"fn": "verify_root", "args": [r1, r2], "must": True})
        calls.append({"fn": "verify_root", "args": [r2, r1], "must": False})
        r2b = copy.deepcopy(r2)
        r2b["signed"]["expiration"] = "2032-01-01T00:00:00Z"            # edited after signing
        calls.append({"fn": "verify_root", "args": [r1, r2b], "must": False})
        r2c = copy.deepcopy(r2)
        del r2c["signatures"][keys.pub[0]]                                # one signer short of the old rule
        calls.append({"fn": "verify_root", "args": [r1, r2c], "must": False})
        r2d = copy.deepcopy(r2)
        r2d["signatures"]["\udc80junk"] = {"x": "\u00e9"}
        # (a malformed signature *value* makes the offered document malformed delegating metadata: verify_root must reject)
        calls.append({"fn": "verify_root", "args": [r1, r2d], "must": False})
        r2e = copy.deepcopy(r2)
        r2e["signatures"]["\udc80not-a-key"] = {"signature": "00" * 64}     # well-formed value under a junk key: ignored
        calls.append({"fn": "verify_root", "args": [r1, r2e], "must": True})
        calls.append({"fn": "verify_delegation", "args": ["key_mgr", r2, r1], "kw": {"gpg": True}, "must": False})     # type mismatch
        km = lib.signing.wrap_as_signable(mc.build_delegating_metadata("key_mgr", {"pkg_mgr": {"pubkeys": [keys.pub[0]], "threshold": 1}}, 1,
                                                                        "2021-01-01T00:00:00Z", "2031-01-01T00:00:00Z"))
        lib.signing.sign_signable(km, keys.priv[2])
        calls.append({"fn": "verify_delegation", "args": ["key_mgr", km, r2], "must": True})
        calls.append({"fn": "verify_delegation", "args": ["pkg_mgr", km, r2], "must": False})
        # signed fixtures shipped with earlier releases
        td = os.path.join(REPO, "tests", "testdata")
        demo = os.path.join(REPO, "demo")
        try:
            L = lambda d, f: json.load(open(os.path.join(d, f)))  # noqa: E731
            calls.append({"fn": "verify_root", "args": [L(td, "1.root.json"), L(td, "2.root.json")], "must": True, "fixture": True})
            calls.append({"fn": "verify_root", "args": [L(td, "2.root.json"), L(td, "3.root.json")], "must": True, "fixture": True})
            calls.append({"fn": "verify_delegation", "args": ["key_mgr", L(td, "key_mgr.json"), L(td, "3.root.json")], "must": True, "fixture": True})
            calls.append({"fn": "verify_root", "args": [L(demo, "1.root.json"), L(demo, "2.root.json")], "must": True, "fixture": True})
            calls.append({"fn": "verify_delegation", "args": ["key_mgr", L(demo, "key_mgr.json"), L(demo, "2.root.json")], "must": True, "fixture": True})
            rd = L(td, "repodata_short_signed_sample.json")
            for nm, sigs in rd["signatures"].items():
                rec = rd["packages"].get(nm, rd.get("packages.conda", {}).get(nm))
                if rec is not None:
                    calls.append({"fn": "verify_signable", "args": [{"signatures": sigs, "signed": rec}, list(sigs), 1], "must": True, "fixture": True})
            self.run.probe("shipped_fixtures_included")
        except (OSError, ValueError, KeyError):
            self.run.probe("shipped_fixtures_missing")
        # in-process reference verdicts
        ref = []
        for c in calls:
            args = [bytes.fromhex(a[7:]) if isinstance(a, str) and a.startswith("@bytes:") else a for a in copy.deepcopy(c["args"])]
            o = self.calls.call(c["fn"], *args, **c.get("kw", {}))
            ref.append(o.cls)
            if c["must"] and not o.ok:
                self.run.violate(("C02", "C12"), "must-accept-rejected",
                                 "in-process: %s on a validly signed %s raised %s" % (c["fn"], "shipped fixture" if c.get("fixture") else "envelope", o),
                                 "must-accept-rejected:" + o.cls)
        path = os.path.join(self.scratch, "scenario.json")
        with open(path, "w") as f:
            json.dump([{k: v for k, v in c.items() if k in ("fn", "args", "kw")} for c in calls], f)
        self.scn = (path, calls, ref)
        return self.scn

    def gen(self, rng):
        cfg = gen_cfg(rng)
        return {"op": "spawn", "cfg": cfg, "preimport": rng.choice(PREIMPORTS)}

    def apply(self, op):
        try:
            path, calls, ref = self._scenario()
        except (ValueError, TypeError, KeyError) as e:
            # the fixtures are valid by construction (keys shared between roles included); a builder / signer that refuses them is a finding
            import traceback
            tb = traceback.extract_tb(e.__traceback__)
            if tb and tb[-1].filename.startswith(self.lib.dir):
                self.run.violate(("C02", "C16", "C05", "C03"), "valid-fixture-rejected", "building the (valid) fixtures of the configuration scenario failed "
                                 "inside the library: %s: %s" % (type(e).__name__, str(e)[:200]), "valid-fixture-rejected:" + type(e).__name__)
                return
            raise
        if self.run.stop:
            return
        cfg = op["cfg"]
        p = self.spawn([os.path.join(HERE, "child.py"), "verdicts", path], cfg, {"VERIF_PREIMPORT": op.get("preimport", "")})
        self.run.fault("preimport_" + (op.get("preimport") or "none"))
        self.run.fault("stdout_" + (cfg["ioenc"] or cfg["lc_all"] + "/utf8=" + cfg["utf8"]))
        self.run.fp("config", op.get("preimport"), cfg["lc_all"], cfg["utf8"], cfg["ioenc"], cfg["cwd"], cfg["opt"])
        out = p.stdout.decode("utf-8", "replace") if not cfg["ioenc"] == "utf-16" else p.stdout.decode("utf-16", "replace")
        try:
            r = json.loads(out.strip().splitlines()[-1])
        except (ValueError, IndexError):
            self.run.violate(("C12", "C02"), "child-crashed", "fresh interpreter under %r (pre-imports %r) did not finish the call list: %s"
                             % (cfg, op.get("preimport"), p.stderr.decode("utf-8", "replace")[-300:]), "child-crashed")
            return
        got = r["verdicts"]
        self.run.ev("child", got)
        self.run.accepts += 1
        self.run.rejects += 1
        for c, a, b in zip(calls, ref, got):
            if a != b:
                prop = ("C02", "C12") if c["must"] else ("C12", "C02")
                if c.get("kw", {}).get("gpg") or c["fn"] in ("verify_root", "verify_gpg_signature"):
                    prop = prop + ("C10", "C03")
                self.run.violate(prop, "verdict-depends-on-configuration",
                                 "%s gave %s in-process but %s in a fresh interpreter with pre-imports %r, stdout %s, config %r"
                                 % (c["fn"], a, b, op.get("preimport"), r.get("stdout_encoding"), cfg), "verdict-depends-on-configuration:" + b)
                return


# ======================================================================================= C17

ENTRIES = ["script", "pkg", "climod"]


@register
class CliWorld(ChainWorld):
    name = "cli"

    @classmethod
    def header(cls, rng, tier, prop):
        h = ChainWorld.header.__func__(cls, rng, tier, "C04")
        h["n_ops"] = rng.randint(14, 30)
        h["clients"] = 1
        h["start_version"] = rng.choice([1, 1, 2, 7])
        h["fault_rate"] = rng.choice(["low", "medium"])
        return h

    def __init__(self, run, header):
        super().__init__(run, header)
        self.kms = []
        self.km_kinds = []
        d = os.path.join(SCRATCH_ROOT, "cct-cli-%d-%d" % (os.getpid(), run.run_seed % 10**9))
        if os.path.exists(d):
            shutil.rmtree(d)
        os.makedirs(d)
        self.scratch = d
        self.nfile = 0
        script = os.path.join(os.path.dirname(PY), "conda-content-trust")
        self.script = script if os.path.exists(script) else None
        # two honest rotations up front, so that valid successor pairs exist from the first operation on
        for step in range(2):
            cur = self._cur_root_idx(self.head)
            nxt = cur if step == 0 else (cur[1:] + [min(len(self.keys) - 1, max(cur) + 1)] if len(cur) > 1 else cur)
            nxt = sorted(set(nxt))
            self.op_ceremony_start({"root": nxt, "t": max(1, len(nxt) - step), "km": [len(self.keys) - 1], "km_t": 1, "version": "next"})
            if self.staged is None:
                break
            for i in sorted(set(cur) | set(nxt)):
                self._pgp_sign(self.staged["doc"], i, "simgpg")
            self.op_publish({})

    def close(self):
        super().close()
        shutil.rmtree(self.scratch, ignore_errors=True)

    def _base(self, b):
        if b[0] == "km":
            return self.kms[b[1]] if b[1] < len(self.kms) else None
        return super()._base(b)

    # ---------------------------------------------------------------- documents
    def op_mk_km(self, op):
        doc = self._mk_km_doc(op)
        if doc is None:
            return self.run.ev("noop")
        self.kms.append(doc)
        self.km_kinds.append(op.get("kind", "honest"))

    def _head_km_signers(self):
        head = self.head["signed"]["delegations"].get("key_mgr", {}).get("pubkeys", [])
        return [self.keys.pub.index(p) for p in head if p in self.keys.pub] or [0]

    def _mk_km_doc(self, op):
        lib = self.lib
        pk = [self.keys.pub[i] for i in op["keys"] if i < len(self.keys)]
        dels = {"pkg_mgr": {"pubkeys": pk, "threshold": op.get("t", 1)}}
        for role in op.get("also_delegates", []):
            dels[role] = {"pubkeys": pk, "threshold": 1}       # a key_mgr document that (also) delegates a role of this name
        if op.get("root_like"):
            # a document declaring type root (any version), to be signed by whoever `signers` says, in raw mode
            o = self.calls.raw("build_root_metadata", op.get("version", 1), pk, 1, pk, 1, "2021-01-01T00:00:00Z", "2031-01-01T00:00:00Z")
        else:
            o = self.calls.raw("build_delegating_metadata", "key_mgr", dels, op.get("version", 1), "2021-01-01T00:00:00Z", "2031-01-01T00:00:00Z")
        if not o.ok:
            return None
        doc = self.calls.raw("wrap_as_signable", o.value).value
        self._apply_mods(doc, op.get("mods", []))
        signers = self._head_km_signers() if op.get("signers") == "head" else op.get("signers", [])
        if op.get("style") == "pgp":
            # signed the way root key holders sign (OpenPGP entries) - not what the delegation verifier expects by default
            for i in signers:
                if i < len(self.keys) and isinstance(doc.get("signatures"), dict):
                    try:
                        self._pgp_sign(doc, i, "simgpg")
                    except (TypeError, AssertionError, KeyError, AttributeError):
                        pass
            signers = []
        for i in signers:
            if i < len(self.keys) and isinstance(doc.get("signatures"), dict):
                s = self.calls.raw("sign_signable", doc, self.keys.priv[i])
                if s.ok:
                    try:
                        self.ledger.record_raw(self.keys.pub[i], payload_hash(doc["signed"]), doc["signatures"][self.keys.pub[i]]["signature"])
                    except (KeyError, TypeError):
                        pass
        self._apply_mods(doc, op.get("mods_after", []))
        return doc

    def _write(self, doc, fmt, special):
        self.nfile += 1
        path = os.path.join(self.scratch, "f%d.json" % self.nfile)
        if special == "missing":
            return path
        if special == "dir":
            os.makedirs(path)
            return path
        if special == "empty":
            data = b""
        elif special == "notjson":
            data = b"{\"signed\": "
        elif special == "bom":
            data = b"\xef\xbb\xbf" + refcanon(doc)
        elif special == "binary":
            data = b"\xff\xfe\x00\x01"
        elif special == "dup_first" and isinstance(doc, dict) and set(doc) == {"signatures", "signed"}:
            # member names written twice: the genuine signature map first, an empty one last.  Every JSON reader of the ecosystem keeps the
            # last one, so this file holds an unsigned document
            data = ("{\n \"signatures\": %s,\n \"signed\": %s,\n \"signatures\": {},\n \"signed\": %s\n}"
                    % (json.dumps(doc["signatures"]), json.dumps(doc["signed"]), json.dumps(doc["signed"]))).encode("ascii")
        elif isinstance(special, str) and special.startswith("trailing:"):
            # a complete document, blanks up to a round offset, then something that is not JSON: not a JSON file at all
            n = int(special.split(":")[1])
            data = refcanon(doc)
            data = data + b" " * max(0, n - len(data)) + b"\n{\"x\": 1}"
        else:
            from world_storage import dump_as
            try:
                data = dump_as(doc, fmt)
            except (TypeError, ValueError):
                data = b"null"
        with open(path, "wb") as f:
            f.write(data)
        return path

    def _spell(self, path, how, decoy=None):
        """Another spelling of an existing real file's path.  'symdotdot': <A>/link/../<name> where link is a symlink to a
        directory elsewhere, so that the kernel reaches <B>/<name> while a purely textual collapse of 'link/..' reaches
        <A>/<name> (where a decoy with other content is placed).  Returns the spelled path."""
        if not how:
            return path
        name = os.path.basename(path)
        self.nfile += 1
        a = os.path.join(self.scratch, "A%d" % self.nfile)
        b = os.path.join(self.scratch, "B%d" % self.nfile)
        os.makedirs(a)
        os.makedirs(os.path.join(b, "sub"))
        real = os.path.join(b, name)
        os.replace(path, real) if os.path.isfile(path) else None
        if how == "symdotdot":
            os.symlink(os.path.join("..", os.path.basename(b), "sub"), os.path.join(a, "link"))
            if decoy is not None:
                with open(os.path.join(a, name), "wb") as f:
                    f.write(decoy)
            self.run.fault("path_through_symlink_dotdot")
            return os.path.join(a, "link", "..", name), real
        if how == "dotslash":
            return os.path.join(b, ".", "sub", "..", name), real
        if how == "relative":
            return os.path.relpath(real, self.scratch), real
        return real, real

    def _cmd(self, entry, args, cfg):
        flags = ["-O"] if cfg.get("opt") else []
        if entry == "script":
            if self.script:
                return [self.script] + args
            return [PY] + flags + ["-c", "import sys; from conda_content_trust.cli import cli; sys.exit(cli())"] + args
        if entry == "pkg":
            return [PY] + flags + ["-m", "conda_content_trust"] + args
        return [PY] + flags + ["-m", "conda_content_trust.cli"] + args

    def _oracle(self, tpath, upath):
        """In-process library verdict on the same files, dispatched exactly as the property states."""
        try:
            with open(upath, "rb") as f:
                u = json.load(f)
            with open(tpath, "rb") as f:
                t = json.load(f)
        except (OSError, ValueError, UnicodeDecodeError):
            return False, "unreadable"
        try:
            mtype = u["signed"]["type"]
        except (KeyError, TypeError, IndexError):
            return False, "no-type"
        if mtype == "root":
            o = self.calls.call("verify_root", t, u)
            return o.ok, "root:" + o.cls
        o = self.calls.call("verify_delegation", mtype, u, t)
        return o.ok, "deleg:" + o.cls

    def op_cli_verify(self, op):
        T, U = self._base(op["t"]), self._base(op["u"])
        if T is None or U is None:
            return self.run.ev("noop")
        sp = op.get("special") or [None, None]
        tpath = self._write(T, op.get("tfmt", "canon"), sp[0])
        upath = self._write(U, op.get("ufmt", "canon"), sp[1])
        ureal = upath
        if op.get("spell") and not sp[1] and os.path.isfile(upath):
            decoy = None
            if op.get("decoy") is not None:
                D = self._base(op["decoy"])
                try:
                    decoy = refcanon(D) if D is not None else None
                except (TypeError, AssertionError):
                    decoy = None
            upath, ureal = self._spell(upath, op["spell"], decoy)
            if op["spell"] == "relative":
                op = dict(op, cfg=dict(op["cfg"], cwd="scratch"))
        accepted, why = self._oracle(tpath, ureal)
        cfg = op["cfg"]
        cmd = self._cmd(op["entry"], ["verify-metadata", tpath, upath], cfg)
        cwd = {"scratch": self.scratch, "/": "/", "repo": REPO}[cfg.get("cwd", "scratch")]
        p = subprocess.run(cmd, env=child_env(cfg), cwd=cwd, capture_output=True, timeout=120)
        out = p.stdout.decode("utf-8", "replace") if cfg.get("ioenc") != "utf-16" else p.stdout.decode("utf-16", "replace")
        success_line = "successful" in out.lower()
        reported = bool(out.strip())
        self.run.probe("process_spawned")
        self.run.probe("entry_" + op["entry"])
        self.run.probe("cli_expected_accept" if accepted else "cli_expected_reject")
        self.run.fp("cli", op["entry"], why, p.returncode, cfg["lc_all"], cfg["utf8"])
        self.run.ev("cli", op["entry"], why, p.returncode, success_line)
        if accepted:
            self.run.accepts += 1
        else:
            self.run.rejects += 1
        for k in (sp[0], sp[1]):
            if k:
                self.run.fault("file_" + k)
        if accepted and (p.returncode != 0 or not reported):
            self.run.violate(("C17",), "accepted-but-nonzero",
                             "library accepts (%s) but `%s verify-metadata` exited %d (success line: %s) under %r: %s"
                             % (why, op["entry"], p.returncode, success_line, cfg, p.stderr.decode("utf-8", "replace")[-300:]),
                             "accepted-but-nonzero:" + op["entry"])
        elif not accepted and p.returncode == 0:
            self.run.violate(("C17", "C04", "C03"), "rejected-but-zero",
                             "library rejects (%s) but entry point %r exited 0 (success line printed: %s)" % (why, op["entry"], success_line),
                             "rejected-but-zero:" + op["entry"])
        elif not accepted and success_line:
            self.run.violate(("C17",), "rejected-but-success-line", "library rejects (%s) but a success line was printed" % why,
                             "rejected-but-success-line:" + op["entry"])

    def op_cli_argv(self, op):
        """Odd argument vectors (missing / extra / empty / repeated arguments, unknown options, shortened sub-command names, '--')
        for the verifying and signing sub-commands, over inputs that cannot succeed: the untrusted file is unsigned, the key file is
        unusable.  However the arguments are read, status 0 would report a verification / signing that did not happen; and the
        file named for signing is unchanged."""
        T = self.head
        U = self._mk_km_doc({"keys": [0], "signers": [], "version": 1})          # unsigned key_mgr document: nothing accepts it
        if U is None:
            return self.run.ev("noop")
        t, u = self._write(T, "canon", None), self._write(U, "canon", None)
        self.nfile += 1
        rpath = os.path.join(self.scratch, "argv-repodata%d.json" % self.nfile)
        kpath = os.path.join(self.scratch, "argv-key%d.hex" % self.nfile)
        before = refcanon({"info": {}, "packages": {"a-1-0.tar.bz2": {"name": "a"}}, "packages.conda": {}})
        with open(rpath, "wb") as f:
            f.write(before)
        with open(kpath, "w") as f:
            f.write("zz" + self.keys.seeds[0].hex()[2:])
        forms = {
            "v_missing": ["verify-metadata", t], "v_extra": ["verify-metadata", t, u, "extra"], "v_empty": ["verify-metadata", t, ""],
            "v_empty_first": ["verify-metadata", "", u], "v_short": ["verify-meta", t, u], "v_option": ["verify-metadata", "--force", t, u],
            "v_trailing_option": ["verify-metadata", t, u, "--quiet"], "v_dashes": ["verify-metadata", "--", t, u], "v_twice": ["verify-metadata", "verify-metadata", t, u],
            "v_same": ["verify-metadata", u, u], "v_chain3": None, "v_swapped": ["verify-metadata", u, t], "v_plain": ["verify-metadata", t, u],
            "s_missing": ["sign-artifacts", rpath], "s_extra": ["sign-artifacts", rpath, kpath, "x"], "s_empty_key": ["sign-artifacts", rpath, ""],
            "s_short": ["sign-art", rpath, kpath], "s_option": ["sign-artifacts", "--yes", rpath, kpath], "s_dashes": ["sign-artifacts", "--", rpath, kpath],
            "s_key_is_file": ["sign-artifacts", rpath, rpath], "s_swapped": ["sign-artifacts", kpath, rpath], "s_plain": ["sign-artifacts", rpath, kpath],
        }
        if op["form"] == "v_chain3":
            # trusted root, then a self-made "successor" signed only by its own key, then a successor of that one: a consistent forged chain
            a = op.get("key", 0) % len(self.keys)
            try:
                v = int(T["signed"]["version"])
            except (KeyError, TypeError, ValueError):
                v = 1
            R2 = self._mk_km_doc({"keys": [a], "signers": [a], "version": v + 1, "style": "pgp", "root_like": True})
            R3 = self._mk_km_doc({"keys": [a], "signers": [a], "version": v + 2, "style": "pgp", "root_like": True})
            if R2 is None or R3 is None or self.keys.pub[a] in T["signed"]["delegations"].get("root", {}).get("pubkeys", []):
                return self.run.ev("noop")
            forms["v_chain3"] = ["verify-metadata", t, self._write(R2, "canon", None), self._write(R3, "canon", None)]
        args = forms.get(op["form"])
        if args is None:
            return self.run.ev("noop")
        cfg = op["cfg"]
        p = subprocess.run(self._cmd(op["entry"], args, cfg), env=child_env(cfg), cwd=self.scratch, capture_output=True, timeout=120, stdin=subprocess.DEVNULL)
        self.run.probe("process_spawned")
        self.run.probe("cli_odd_argv")
        self.run.rejects += 1
        self.run.fp("cli-argv", op["form"], p.returncode)
        if p.returncode == 0:
            self.run.violate(("C17", "C04"), "rejected-but-zero", "`%s %s` exited 0 although nothing was (or could be) verified / signed"
                             % (op["entry"], " ".join(a if a else "''" for a in [os.path.basename(x) if x.startswith(self.scratch) else x for x in args])),
                             "rejected-but-zero:argv:" + op["form"])
            return
        if op["form"].startswith("s_") and open(rpath, "rb").read() != before:
            self.run.violate(("C17", "C18"), "sign-nonzero-but-file-changed", "sign-artifacts exited %d but changed the file (form %s)" % (p.returncode, op["form"]),
                             "sign-nonzero-but-file-changed:argv")

    def op_cli_cross(self, op):
        """Directed pair for verify-metadata: the trusted file is a key_mgr document delegating the named roles to one key; the
        untrusted file declares some type and is signed (raw or OpenPGP style) by that key or by another.  Whatever the pair, status 0
        only if the library's verifier for the declared type accepts it."""
        k, other = op["key"], op["other"]
        T = self._mk_km_doc({"keys": [k], "signers": "head", "version": 1, "also_delegates": op["roles"]})
        spec = {"keys": [k], "signers": [k if op["signer"] == "delegated" else other], "version": op["u_version"], "style": op["style"]}
        if op["u_type"] == "root":
            spec["root_like"] = True
        elif op["u_type"] != "key_mgr":
            spec["mods"] = [["type", op["u_type"]]]
        U = self._mk_km_doc(spec)
        if T is None or U is None:
            return self.run.ev("noop")
        self.kms += [T, U]
        self.km_kinds += ["cross_trusted", "cross_untrusted"]
        self.run.probe("cli_cross_pair")
        self.op_cli_verify({"op": "cli_verify", "t": ["km", len(self.kms) - 2], "u": ["km", len(self.kms) - 1], "entry": op["entry"], "cfg": op["cfg"],
                            "tfmt": "canon", "ufmt": "canon"})

    def _oracle_docs(self, t, u):
        try:
            mtype = u["signed"]["type"]
        except (KeyError, TypeError, IndexError):
            return False
        if mtype == "root":
            return self.calls.call("verify_root", copy.deepcopy(t), copy.deepcopy(u)).ok
        return self.calls.call("verify_delegation", mtype, copy.deepcopy(u), copy.deepcopy(t)).ok

    def op_cli_toctou(self, op):
        """The untrusted file is replaced (atomically, by another process) between two opens of the same name while
        verify-metadata runs.  Whatever the tool then reports, status 0 is only right if the library accepts at least
        one of the two versions - never a mixture (type taken from one version, signatures from the other)."""
        if op.get("directed"):
            # two versions whose declared types differ: one plain key_mgr document, one signed by the key_mgr key in force
            # but declaring another type (and, optionally, not well-formed as delegating metadata)
            T = self.head
            A = self._mk_km_doc({"keys": [0], "signers": "head" if op["directed"].get("a_signed") else [], "version": 1,
                                 "mods_after": [["expiration", "2038-01-01T00:00:00Z"]] if op["directed"].get("a_edited") else []})
            B = self._mk_km_doc({"keys": [0], "signers": "head", "version": 1,
                                 "mods": [["type", op["directed"]["b_type"]]] + ([["del", ["signed", op["directed"]["b_del"]]]] if op["directed"].get("b_del") else [])})
            if op["directed"].get("swap"):
                A, B = B, A
        else:
            T, A, B = self._base(op["t"]), self._base(op["a"]), self._base(op["b"])
        if T is None or A is None or B is None:
            return self.run.ev("noop")
        try:
            ta, tb, tt = refcanon(A), refcanon(B), refcanon(T)
        except (TypeError, AssertionError):
            return self.run.ev("noop")
        self.fs.put("cli/trusted.json", tt)
        self.fs.put("cli/untrusted.json", ta)
        self.fs.opens_r.pop("cli/untrusted.json", None)
        self.fs.swap["cli/untrusted.json"] = (op.get("at", 2), tb)
        o = self.calls.cli_main(["verify-metadata", "cli/trusted.json", "cli/untrusted.json"])
        self.fs.swap.pop("cli/untrusted.json", None)
        reads = self.fs.opens_r.get("cli/untrusted.json", 0)
        self.run.probe("cli_toctou_reads_%d" % min(reads, 3))
        acc = self._oracle_docs(T, A) or self._oracle_docs(T, B)
        if acc:
            self.run.accepts += 1
        else:
            self.run.rejects += 1
        if o.ok and o.value in (0, None) and not acc:
            self.run.violate(("C17",), "accepted-mixture-of-two-file-versions",
                             "verify-metadata returned status 0 although the library rejects the untrusted file both as it was at the first "
                             "open and as it was after its replacement (%d opens of the untrusted file)" % reads,
                             "accepted-mixture-of-two-file-versions")

    def op_cli_sign(self, op):
        from world_storage import dump_as
        self.nfile += 1
        rpath = os.path.join(self.scratch, "repodata%d.json" % self.nfile)
        kpath = os.path.join(self.scratch, "key%d.hex" % self.nfile)
        doc = op["doc"]
        before = dump_as(doc, op.get("fmt", "canon")) if "raw" not in op else op["raw"].encode()
        if op.get("presign") and isinstance(doc, dict) and isinstance(doc.get("packages"), dict) and "raw" not in op:
            # the file was signed before (same key), then some artifact's metadata changed: a repodata patch, a rebuild
            try:
                old = copy.deepcopy(doc)
                sigs = {}
                for sec in ("packages", "packages.conda"):
                    for nm, rec in (old.get(sec) or {}).items():
                        sigs[nm] = {self.keys.pub[0]: {"signature": self.keys.priv[0].sign(refcanon(rec)).hex()}}
                names = sorted(sigs)
                if names:
                    tgt = names[op["presign"] % len(names)]
                    for sec in ("packages", "packages.conda"):
                        if isinstance(doc.get(sec), dict) and tgt in doc[sec]:
                            rec = doc[sec][tgt]
                            doc[sec][tgt] = dict(rec, patched=True) if isinstance(rec, dict) else {"patched": rec}
                    doc["signatures"] = sigs
                    before = dump_as(doc, op.get("fmt", "canon"))
                    self.run.fault("resign_after_metadata_change")
            except (TypeError, AttributeError, AssertionError):
                pass
        with open(rpath, "wb") as f:
            f.write(before)
        seed_hex = self.keys.seeds[0].hex()
        k = op.get("key", "good")
        text = {"good": seed_hex + "\n", "upper": seed_hex.upper() + "\n", "spaces": "  " + seed_hex + " \n", "short": seed_hex[:-2],
                "nonhex": "zz" + seed_hex[2:], "empty": "", "two": seed_hex + "\n" + seed_hex}.get(k)
        if text is not None:
            with open(kpath, "w") as f:
                f.write(text)
        rreal = rpath
        if op.get("spell"):
            rpath, rreal = self._spell(rpath, op["spell"], before)
        cfg = op["cfg"]
        cmd = self._cmd(op["entry"], ["sign-artifacts", rpath, kpath], cfg)
        pre = None
        if op.get("fsize"):
            # the process may not grow any file beyond N bytes (RLIMIT_FSIZE: quota / full disk as the child sees it)
            lim = int(op["fsize"])

            def pre():
                import resource
                resource.setrlimit(resource.RLIMIT_FSIZE, (lim, lim))
            self.run.fault("write_fails_file_size_limit")
        p = subprocess.run(cmd, env=child_env(cfg), cwd=self.scratch, capture_output=True, timeout=120, preexec_fn=pre)
        self.run.probe("process_spawned")
        self.run.probe("entry_" + op["entry"])
        after = open(rreal, "rb").read()
        signed = False
        pub = self.keys.pub[0]
        try:
            cur = json.loads(after)
            arts = {}
            arts.update(cur["packages"])
            arts.update(cur.get("packages.conda", {}))
            signed = set(cur["signatures"]) == set(arts) and all(
                set(cur["signatures"][n]) == {pub} and ref_is_hex(cur["signatures"][n][pub]["signature"], 128) for n in arts) and after == refcanon(cur)
            if signed:
                # "actually signed": every stored signature is a valid signature by that key over the artifact's *current* metadata
                pk = self.lib.common.PublicKey.from_hex(pub)
                for n in sorted(arts):
                    o = self.calls.call("verify_signature", cur["signatures"][n][pub]["signature"], pk, refcanon(arts[n]))
                    if not o.ok:
                        signed = False
                        self.run.probe("stale_or_invalid_signature_in_output")
                        break
        except (ValueError, KeyError, TypeError, AttributeError):
            signed = False
        good_input = k in ("good", "upper", "spaces") and isinstance(doc, dict) and isinstance(doc.get("packages"), dict) and \
            isinstance(doc.get("packages.conda", {}), dict) and "raw" not in op
        self.run.ev("cli_sign", op["entry"], k, p.returncode, signed)
        self.run.fp("cli_sign", op["entry"], k, p.returncode, signed)
        if signed:
            self.run.accepts += 1
        else:
            self.run.rejects += 1
        self.run.fault("signing_input_" + k)
        if p.returncode == 0 and not signed:
            self.run.violate(("C17", "C11", "C08", "C18"), "sign-exit-zero-without-signing",
                             "`%s sign-artifacts` exited 0 but the file is not signed (key file: %s): %s"
                             % (op["entry"], k, p.stdout.decode("utf-8", "replace")[:200]), "sign-exit-zero-without-signing:" + op["entry"])
        elif p.returncode != 0 and good_input and not op.get("fsize"):
            self.run.violate(("C17",), "sign-good-input-nonzero", "`%s sign-artifacts` exited %d on valid input: %s"
                             % (op["entry"], p.returncode, p.stderr.decode("utf-8", "replace")[-300:]), "sign-good-input-nonzero:" + op["entry"])
        elif p.returncode != 0 and after != before and not op.get("fsize"):
            # (with a file-size limit the failure strikes during the output phase: a torn file is outside the properties' wording)
            self.run.violate(("C17", "C18"), "sign-nonzero-but-file-changed", "sign-artifacts exited %d but changed the file" % p.returncode,
                             "sign-nonzero-but-file-changed")

    def op_cli_gpg(self, op):
        """gpg-sign / gpg-key-lookup as real processes: stub securesystemslib on PYTHONPATH (or absent), real gpg binary."""
        import pgp
        b = pgp.RealGpg.get(REPO)
        if not b.ok:
            self.run.probe("real_gpg_leg_skipped")
            return self.run.ev("noop")
        k = b.keys[op.get("gkey", 0) % len(b.keys)]
        fpr = {"good": k["fpr"], "upper": k["fpr"].upper(), "spaced": " ".join(k["fpr"][i:i + 4] for i in range(0, 40, 4)).upper(),
               "unknown": "ab" * 20, "short": k["fpr"][:-2], "nonhex": "zz" + k["fpr"][2:]}[op.get("fpr", "good")]
        self.nfile += 1
        path = os.path.join(self.scratch, "g%d.json" % self.nfile)
        E = {"signatures": {}, "signed": op["payload"]}
        from world_storage import dump_as
        before = dump_as(E, op.get("fmt", "canon")) if "raw" not in op else op["raw"].encode()
        with open(path, "wb") as f:
            f.write(before)
        cfg = op["cfg"]
        extra = {"GNUPGHOME": b.home, "VERIF_GPG_TIME": str(1700000000 + int(self.clock) % 10**8)}
        env = child_env(cfg, extra)
        if op.get("with_stub", True):
            env["PYTHONPATH"] = REPO + os.pathsep + os.path.join(HERE, "stubs")
        if op.get("sub") == "lookup":
            cmd = self._cmd(op["entry"], ["gpg-key-lookup", fpr], cfg)
        else:
            cmd = self._cmd(op["entry"], ["gpg-sign", fpr, path], cfg)
        p = subprocess.run(cmd, env=env, cwd=self.scratch, capture_output=True, timeout=120)
        self.run.probe("process_spawned")
        self.run.probe("entry_" + op["entry"])
        self.run.probe("cli_gpg_" + op.get("sub", "sign"))
        out = p.stdout.decode("utf-8", "replace")
        if op.get("sub") == "lookup":
            ok = k["q"] in out
            self.run.ev("cli_gpg_lookup", op["entry"], op.get("fpr"), p.returncode, ok)
            if p.returncode == 0 and not ok:
                self.run.violate(("C17",), "lookup-exit-zero-without-key", "gpg-key-lookup exited 0 without reporting the key value",
                                 "lookup-exit-zero-without-key:" + op["entry"])
            return
        after = open(path, "rb").read()
        signed = False
        try:
            cur = json.loads(after)
            if after != before:
                o = self.calls.call("verify_signable", cur, [k["q"]], 1, gpg=True)
                signed = o.ok and refcanon(cur["signed"]) == refcanon(op["payload"]) and after == refcanon(cur)
        except (ValueError, KeyError, TypeError):
            signed = False
        good = op.get("with_stub", True) and op.get("fpr", "good") in ("good", "upper", "spaced") and "raw" not in op
        self.run.ev("cli_gpg_sign", op["entry"], op.get("fpr"), op.get("with_stub", True), p.returncode, signed)
        self.run.fp("cli_gpg", op["entry"], op.get("fpr"), op.get("with_stub", True), p.returncode, signed)
        if signed:
            self.run.accepts += 1
        else:
            self.run.rejects += 1
        self.run.fault("gpg_input_%s_%s" % (op.get("fpr"), "stub" if op.get("with_stub", True) else "nostub"))
        if p.returncode == 0 and not signed:
            self.run.violate(("C17",), "sign-exit-zero-without-signing", "`%s gpg-sign` exited 0 but the file carries no valid OpenPGP signature by that key (%s)"
                             % (op["entry"], op.get("fpr")), "gpg-sign-exit-zero-without-signing:" + op["entry"])
        elif p.returncode != 0 and good:
            self.run.violate(("C17", "C10"), "sign-good-input-nonzero", "`%s gpg-sign` exited %d with a usable key and file: %s"
                             % (op["entry"], p.returncode, p.stderr.decode("utf-8", "replace")[-300:]), "gpg-sign-good-input-nonzero:" + op["entry"])
        elif p.returncode != 0 and after != before:
            self.run.violate(("C17", "C18"), "sign-nonzero-but-file-changed", "gpg-sign exited %d but changed the file" % p.returncode,
                             "gpg-sign-nonzero-but-file-changed")

    # ---------------------------------------------------------------- generator
    def gen(self, rng):
        nk = len(self.keys)
        r = rng.random()
        cfg = gen_cfg(rng)
        if cfg["ioenc"] == "utf-16":
            cfg["ioenc"] = ""
        if r < 0.06:
            op = {"op": "cli_gpg", "entry": rng.choice(ENTRIES), "cfg": cfg, "payload": gen.gen_payload(rng, True), "gkey": rng.randrange(6),
                  "fpr": rng.choice(["good", "good", "good", "upper", "spaced", "unknown", "short", "nonhex"]),
                  "with_stub": rng.random() < 0.8, "fmt": rng.choice(["canon", "compact", "crlf"]), "sub": rng.choice(["sign", "sign", "sign", "lookup"])}
            if rng.random() < 0.1:
                op["raw"] = rng.choice(["", "{", "[]", "{\"signed\": 1}"])
            return op
        if r < 0.40:
            # a CLI verification of some pair
            ts = [["chain", i] for i in range(len(self.honest_chain))] + [["trusted", 0]]
            us = [["repo", i] for i in range(len(self.repo_order))] + [["crafted", i] for i in range(len(self.crafted))] + \
                 [["km", i] for i in range(len(self.kms))] + [["chain", i] for i in range(len(self.honest_chain))]
            if self.staged:
                us.append(["staged"])
            t = rng.choice(ts)
            # bias towards the natural successor / a key_mgr under the head
            if rng.random() < 0.4 and len(self.honest_chain) >= 2:
                i = rng.randrange(len(self.honest_chain) - 1)
                t, u = ["chain", i], ["chain", i + 1]
            elif rng.random() < 0.4 and self.kms:
                t, u = ["chain", len(self.honest_chain) - 1], ["km", rng.randrange(len(self.kms))]
                if rng.random() < 0.3 and len(self.kms) > 1:
                    # a trusted document that is not root metadata (a key_mgr file given as the trusted one), any document under it
                    t = ["km", rng.randrange(len(self.kms))]
                    rr = [i for i, k in enumerate(self.km_kinds) if k == "root_raw"]
                    if rr and rng.random() < 0.7:
                        u = ["km", rng.choice(rr)]
                        dr = [i for i, k in enumerate(self.km_kinds) if k == "delegates_root"]
                        if dr and rng.random() < 0.8:
                            t = ["km", rng.choice(dr)]
            else:
                u = rng.choice(us)
            op = {"op": "cli_verify", "t": t, "u": u, "entry": rng.choice(ENTRIES), "cfg": cfg,
                  "tfmt": rng.choice(["canon", "canon", "compact", "indent4", "crlf", "utf8"]),
                  "ufmt": rng.choice(["canon", "canon", "compact", "unsorted", "crlf", "utf8"])}
            if rng.random() < 0.2:
                ns = [512, 4096, 65536, 1 << 20] + gen.harvested(1024, 16 << 20, around=False) * 3
                s = rng.choice(["missing", "dir", "empty", "notjson", "bom", "binary", "dup_first", "dup_first", "trailing:%d" % rng.choice(ns), "trailing:%d" % rng.choice(ns)])
                op["special"] = [s, None] if rng.random() < 0.4 and not s.startswith(("dup", "trailing")) else [None, s]
            elif rng.random() < 0.25:
                op["spell"] = rng.choice(["symdotdot", "symdotdot", "dotslash", "relative"])
                # the decoy at the textually collapsed location gets the opposite verdict where possible
                ti = t[1] if t[0] == "chain" else None
                if ti is not None and ti + 1 < len(self.honest_chain) and u != ["chain", ti + 1]:
                    op["decoy"] = ["chain", ti + 1]
                elif self.crafted:
                    op["decoy"] = ["crafted", rng.randrange(len(self.crafted))]
            return op
        if r < 0.44:
            return {"op": "cli_argv", "entry": rng.choice(ENTRIES), "cfg": cfg,
                    "key": rng.randrange(nk), "form": rng.choice(["v_chain3", "v_chain3", "v_chain3", "v_missing", "v_extra", "v_empty", "v_empty_first", "v_short", "v_option", "v_trailing_option", "v_dashes", "v_twice", "v_same",
                                        "v_swapped", "v_plain", "s_missing", "s_extra", "s_empty_key", "s_short", "s_option", "s_dashes", "s_key_is_file", "s_swapped",
                                        "s_plain"])}
        if r < 0.48:
            a, b = rng.sample(range(nk), 2) if nk >= 2 else (0, 0)
            return {"op": "cli_cross", "key": a, "other": b, "roles": rng.choice([["root"], ["root", "key_mgr"], ["key_mgr"], [], ["root.json"], ["key_mgr.json"],
                                                                                  ["pkg_mgr.json", "key_mgr.json"], ["Root"], ["root "]]),
                    "u_type": rng.choice(["root", "root", "key_mgr", "pkg_mgr"]), "u_version": rng.choice([1, 2, 5]), "style": rng.choice(["raw", "raw", "pgp"]),
                    "signer": rng.choice(["delegated", "delegated", "other"]), "entry": rng.choice(ENTRIES), "cfg": cfg}
        if r < 0.52:
            return {"op": "cli_toctou", "at": rng.choice([2, 2, 3, 1]),
                    "directed": {"a_signed": rng.random() < 0.5, "a_edited": rng.random() < 0.7, "b_type": rng.choice(["root", "root", "pkg_mgr", "key_mgr"]),
                                 "b_del": rng.choice([None, "expiration", "metadata_spec_version", "delegations", "timestamp"]), "swap": rng.random() < 0.3}}
        if r < 0.54 and self.kms:
            ts = [["chain", len(self.honest_chain) - 1], ["chain", 0]]
            us = [["km", i] for i in range(len(self.kms))] + [["crafted", i] for i in range(len(self.crafted))] + \
                 [["chain", i] for i in range(len(self.honest_chain))]
            a, b = rng.choice(us), rng.choice(us)
            odd = [i for i, k in enumerate(self.km_kinds) if k == "malformed_other_type"]
            plain = [i for i, k in enumerate(self.km_kinds) if k != "malformed_other_type"]
            if odd and plain and rng.random() < 0.6:
                a, b = ["km", rng.choice(plain)], ["km", rng.choice(odd)]     # declared types differ between the two versions
                if rng.random() < 0.3:
                    a, b = b, a
            return {"op": "cli_toctou", "t": rng.choice(ts), "a": a, "b": b, "at": rng.choice([2, 2, 3])}
        if r < 0.62:
            from world_storage import gen_repodata
            doc = gen_repodata(rng, True, 3) if rng.random() < 0.8 else rng.choice([[], {"info": {}}, {"packages": []}])
            op = {"op": "cli_sign", "doc": doc, "entry": rng.choice(ENTRIES), "cfg": cfg, "fmt": rng.choice(["canon", "compact", "crlf"]),
                  "key": rng.choice(["good", "good", "upper", "spaces", "short", "nonhex", "empty", "missing", "two"])}
            if rng.random() < 0.1:
                op["raw"] = rng.choice(["", "{", "not json"])
            if rng.random() < 0.2:
                op["fsize"] = rng.choice([0, 64, 512, 2048])
            elif rng.random() < 0.35:
                op["presign"] = rng.randint(1, 50)
            if rng.random() < 0.25 and "fsize" not in op:
                op["spell"] = rng.choice(["symdotdot", "symdotdot", "dotslash"])
            return op
        if r < 0.74:
            head = self.head["signed"]["delegations"].get("key_mgr", {}).get("pubkeys", [])
            idx = [self.keys.pub.index(p) for p in head if p in self.keys.pub] or [0]
            kind = rng.choice(["honest", "honest", "unsigned", "wrong_signer", "type_root", "edited", "junk", "malformed_other_type",
                               "pgp_signed", "pgp_signed", "delegates_root", "root_raw"])
            op = {"op": "mk_km", "keys": [rng.randrange(nk)], "t": 1, "signers": idx, "version": rng.choice([1, 2]), "kind": kind}
            if kind == "pgp_signed":
                op["style"] = "pgp"
            elif kind == "delegates_root":
                op["also_delegates"] = rng.choice([["root"], ["root", "key_mgr"], ["key_mgr"]])
            elif kind == "root_raw":
                # type root, raw signatures by the keys some key_mgr document lists (or by the head's key_mgr keys)
                op["root_like"] = True
                op["version"] = rng.choice([1, 2, 3, 7])
                if self.kms and rng.random() < 0.7:
                    j = rng.randrange(len(self.kms))
                    try:
                        pubs = self.kms[j]["signed"]["delegations"]["pkg_mgr"]["pubkeys"]
                        op["signers"] = [self.keys.pub.index(p) for p in pubs if p in self.keys.pub] or idx
                    except (KeyError, TypeError, AttributeError):
                        pass
            if kind == "unsigned":
                op["signers"] = []
            elif kind == "wrong_signer":
                op["signers"] = [rng.choice([i for i in range(nk) if i not in idx] or [0])]
            elif kind == "type_root":
                op["mods"] = [["type", rng.choice(["root", "pkg_mgr", "Key_mgr"])]]
            elif kind == "malformed_other_type":
                op["mods"] = [["type", rng.choice(["root", "pkg_mgr"])], ["del", ["signed", rng.choice(["expiration", "metadata_spec_version", "delegations"])]]]
            elif kind == "edited":
                op["mods_after"] = [["expiration", "2039-01-01T00:00:00Z"]]
            elif kind == "junk":
                op["mods_after"] = [["junk", gen.junk_key(rng, self.keys.pub), gen.junk_entry(rng)]]
            return op
        # otherwise: evolve the chain (ceremonies, compromises, crafted documents) with the chain world's generator
        op = ChainWorld.gen(self, rng)
        if op["op"] in ("offer", "deliver", "crash_restart", "recheck"):
            return self._gen_craft(rng, 0) if rng.random() < 0.5 else {"op": "compromise", "key": rng.randrange(nk), "dt": 0}
        return op

    def finish(self):
        pass
