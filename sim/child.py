"""Child of the process world (W4).  Runs in a fresh interpreter under a seeded configuration
(PYTHONHASHSEED, locale, PYTHONUTF8, TZ, cwd, -O, pre-imported modules) and prints one JSON line.

  child.py canon <corpus_seed> <n>        digest of the library's canonical bytes over a seeded corpus
  child.py verdicts <scenario.json>       outcome class of every call of a scenario list

Imports only the standard library, the library under test and the harness's pure helpers
(gen, refmodel) -- never `cryptography` (that would mask import-state dependences of the library).
"""
import hashlib
import json
import os
import random
import sys

HERE = os.path.dirname(os.path.abspath(__file__))
sys.path.insert(0, HERE)
sys.dont_write_bytecode = True

for m in [x for x in os.environ.get("VERIF_PREIMPORT", "").split(",") if x]:
    __import__(m)
if os.environ.get("VERIF_CHILD_LOG"):
    import logging
    logging.basicConfig(level=getattr(logging, os.environ["VERIF_CHILD_LOG"]), stream=sys.stderr)

REPO = os.environ.get("VERIF_REPO", "/repo")
sys.path.insert(0, REPO)

if os.environ.get("VERIF_IMPORT_CAPTURE"):
    # first import of the library happens while the host captures the standard streams; the capture ends afterwards
    import contextlib
    import io
    _cap_out, _cap_err = io.StringIO(), io.StringIO()
    with contextlib.redirect_stdout(_cap_out), contextlib.redirect_stderr(_cap_err):
        import conda_content_trust.authentication  # noqa: F401
        import conda_content_trust.cli  # noqa: F401
        import conda_content_trust.common  # noqa: F401
        import conda_content_trust.metadata_construction  # noqa: F401
        import conda_content_trust.root_signing  # noqa: F401
        import conda_content_trust.signing  # noqa: F401
    if os.environ["VERIF_IMPORT_CAPTURE"] == "closed":
        _cap_out.close()
        _cap_err.close()


def permuted(v, rng):
    """Same JSON value, rebuilt with another insertion history."""
    if isinstance(v, dict):
        items = list(v.items())
        rng.shuffle(items)
        return {k: permuted(x, rng) for k, x in items}
    if isinstance(v, list):
        return [permuted(x, rng) for x in v]
    return v


def corpus(seed, n):
    import gen
    rng = random.Random(seed)
    out = []
    for i in range(n):
        r = rng.random()
        if r < 0.5:
            v = gen.gen_json(rng, rng.choice([1, 2, 3, 4]), None, True)
        elif r < 0.56:
            v = gen.gen_float(rng)
        elif r < 0.62:
            import struct
            v = struct.unpack(">d", rng.getrandbits(64).to_bytes(8, "big"))[0]      # any float by bit pattern
        elif r < 0.66:
            v = gen.as_parsed("".join(chr(rng.randrange(0x110000)) for _ in range(rng.randint(1, 12))))   # any code points
        elif r < 0.68:
            v = gen.gen_deep(rng)
        elif r < 0.72:
            v = gen.gen_str(rng, 40)
        elif r < 0.78:
            v = rng.choice([1, -1]) * rng.getrandbits(rng.choice([8, 64, 200, 1000, 4000, 14000]))
        elif r < 0.9:
            # built by two "parties" adding fields in different orders
            d = {}
            ks = [gen.gen_str(rng, 6) for _ in range(rng.randint(0, 8))]
            for k in ks:
                d[k] = gen.gen_scalar(rng)
            for k in reversed(ks):
                d.setdefault(k + "x", gen.gen_scalar(rng))
            v = d
        else:
            v = {"signatures": {}, "signed": gen.gen_payload(rng, True)}
        out.append(v)
    # the same container object referenced from several places (no cycle): as a JSON value, equal members
    for _ in range(3):
        x = gen.gen_json(rng, 2, None, True)
        if not isinstance(x, (dict, list)):
            x = [x, {"k": x}]
        out.append({"a": x, "b": x, "c": [x, x, {"d": x}]})
    # repodata-sized values: canonical text on both sides of 64 KiB / 128 KiB / 1 MiB boundaries
    for target in (rng.choice([66000, 70000, 131500]), rng.choice([200000, 1100000])):
        pk = {}
        while len(pk) * 150 < target:
            pk["pkg%d-%d.%d-%d.tar.bz2" % (len(pk), rng.randint(0, 9), rng.randint(0, 99), rng.randint(0, 3))] = {
                "sha256": "%064x" % rng.getrandbits(256), "size": rng.randint(1, 10**8), "depends": ["python"]}
        out.append({"info": {"subdir": "noarch"}, "packages": pk})
    return out


def canon(seed, n):
    from conda_content_trust.common import canonserialize
    from refmodel import refcanon
    rng = random.Random(seed ^ 0x5EED)
    h = hashlib.sha256()
    ref_mismatch = order_mismatch = text_mismatch = 0
    for v in corpus(seed, n):
        b = canonserialize(v)
        h.update(len(b).to_bytes(8, "big"))
        h.update(b)
        if b != refcanon(v):
            ref_mismatch += 1
        if canonserialize(permuted(v, rng)) != b:
            order_mismatch += 1
        # loaded from JSON text whose members appear in another order
        txt = json.dumps(permuted(v, rng))
        if canonserialize(json.loads(txt)) != b:
            text_mismatch += 1
    print(json.dumps({"digest": h.hexdigest(), "ref_mismatch": ref_mismatch, "order_mismatch": order_mismatch,
                      "text_mismatch": text_mismatch, "stdout_encoding": sys.stdout.encoding,
                      "fs_encoding": sys.getfilesystemencoding(), "optimize": sys.flags.optimize}))


def verdicts(path):
    import conda_content_trust.authentication as A
    import conda_content_trust.common as C
    import conda_content_trust.signing as S
    calls = json.load(open(path))
    out = []
    real_stdout = sys.stdout
    for c in calls:
        f = getattr(A, c["fn"], None) or getattr(C, c["fn"], None) or getattr(S, c["fn"])
        try:
            args = [bytes.fromhex(a[7:]) if isinstance(a, str) and a.startswith("@bytes:") else a for a in c["args"]]
            f(*args, **c.get("kw", {}))
            out.append("return")
        except Exception as e:  # noqa: BLE001
            out.append(type(e).__name__)
    sys.stdout = real_stdout
    crypt = sorted(m for m in sys.modules if m.startswith("cryptography.hazmat.backends"))
    sys.stdout.write("\n" + json.dumps({"verdicts": out, "stdout_encoding": sys.stdout.encoding, "backends_imported": bool(crypt)}) + "\n")


if __name__ == "__main__":
    if sys.argv[1] == "canon":
        canon(int(sys.argv[2]), int(sys.argv[3]))
    elif sys.argv[1] == "verdicts":
        verdicts(sys.argv[2])
