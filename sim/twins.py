"""Directed construction of 'twin' payloads that collide under weak summaries of the data.

A cache or memo that remembers "this signature was fine" keyed by something weaker than the data itself
(length + CRC-32, length + Adler-32, Python ==) is a realistic optimisation slip.  Random search finds a
CRC-32 collision with probability 2^-32; the attacker in the simulated worlds constructs one instead:
CRC-32 is affine over GF(2) for messages of equal length, so flipping a set of bits whose individual CRC
effects XOR to zero keeps length and CRC.  Only bits whose flip keeps the character inside the JSON string
alphabet in place are used (the low three bits of the characters '0'..'7', '@'..'G', 'H'..'O', 'P'..'W', 'h'..'o', 'p'..'w').
"""
import zlib

_SAFE = set(range(0x30, 0x38)) | set(range(0x48, 0x50)) | set(range(0x50, 0x58)) | set(range(0x68, 0x70)) | set(range(0x70, 0x78))


def crc32_twin(data, start=0, end=None, forbid=()):
    """Another byte string of the same length and CRC-32 as `data`, differing only in 'safe' bit positions inside
    data[start:end] (never at indices in `forbid`).  None if there are not enough free bits."""
    data = bytes(data)
    end = len(data) if end is None else end
    pos = [i for i in range(start, end) if data[i] in _SAFE and i not in forbid]
    bits = [(i, b) for i in pos for b in (0, 1, 2)]
    if len(bits) < 34:
        return None
    bits = bits[:96]
    base = zlib.crc32(bytes(len(data)))
    # effect of flipping one bit = crc(e_i) ^ crc(0...0)   (same length)
    eff = []
    for (i, b) in bits:
        m = bytearray(len(data))
        m[i] = 1 << b
        eff.append(zlib.crc32(bytes(m)) ^ base)
    # Gaussian elimination over GF(2): find a non-empty subset with XOR 0
    basis = {}      # pivot bit -> (value, subset mask)
    for k, e in enumerate(eff):
        v, mask = e, 1 << k
        while v:
            p = v.bit_length() - 1
            if p in basis:
                bv, bm = basis[p]
                v ^= bv
                mask ^= bm
            else:
                basis[p] = (v, mask)
                break
        if v == 0 and mask:
            out = bytearray(data)
            for j in range(len(bits)):
                if mask >> j & 1:
                    i, b = bits[j]
                    out[i] ^= 1 << b
            out = bytes(out)
            if out != data and zlib.crc32(out) == zlib.crc32(data) and len(out) == len(data):
                return out
    return None


def python_eq_twin(v):
    """A JSON value that is == in Python but a different JSON value (1 / 1.0 / True, 0 / 0.0 / False), or None."""
    if isinstance(v, dict):
        for k in v:
            t = python_eq_twin(v[k])
            if t is not None:
                d = dict(v)
                d[k] = t[0]
                return (d,)
        return None
    if isinstance(v, list):
        for i, x in enumerate(v):
            t = python_eq_twin(x)
            if t is not None:
                return (v[:i] + [t[0]] + v[i + 1:],)
        return None
    if isinstance(v, bool):
        return (int(v),)
    if isinstance(v, int) and abs(v) < 2**53:
        return (float(v),) if v not in (0, 1) else (bool(v),)
    if isinstance(v, float) and v == v and abs(v) < 2**53 and v == int(v):
        return (int(v),)
    return None


if __name__ == "__main__":
    import json
    p = {"name": "pkg", "sha256": "0123456701234567012345670123456701234567012345670123456701234567", "size": 10}
    d = json.dumps(p, indent=2, sort_keys=True).encode()
    t = crc32_twin(d)
    print(t is not None and t != d, zlib.crc32(d) == zlib.crc32(t), len(d) == len(t), json.loads(t) != p)
    print(python_eq_twin({"a": [1, "x"], "b": 2.0}))
