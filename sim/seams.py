"""Seams: everything nondeterministic or faulty that the library can touch goes through here.

* load_library()      import conda_content_trust from VERIF_REPO (default /repo), nothing cached
* SimStdout           real codec machinery (io.TextIOWrapper, errors='strict') over a BytesIO sink
* LibCalls            every call any simulated party makes into the library; global monitors
                      (C13 error families, C12 argument immutability) live here
* SimFS               in-memory file system injected as `open` into the library's module namespaces,
                      volatile/durable split, per-operation fault plan
* SimClock            datetime subclass installed as common.datetime
* Patcher             module-attribute injection with guaranteed restore
* Tracer tools        sys.settrace line counter / exception injector / call-return logger
"""
import errno
import importlib
import io
import os
import sys
import datetime as _dt

from refmodel import snapshot

REPO = os.environ.get("VERIF_REPO", "/repo")


class Lib:
    pass


_LIB = None


def load_library():
    """Import the working tree of the library.  'Rebuild' for a pure-Python package = import it fresh."""
    global _LIB
    if _LIB is not None:
        return _LIB
    sys.dont_write_bytecode = True
    if sys.path[0] != REPO:
        sys.path.insert(0, REPO)
    lib = Lib()
    for m in ("common", "signing", "authentication", "root_signing", "metadata_construction", "cli"):
        mod = importlib.import_module("conda_content_trust." + m)
        f = os.path.realpath(mod.__file__)
        if not f.startswith(os.path.realpath(REPO) + os.sep):
            raise RuntimeError("library imported from %s, expected under %s" % (f, REPO))
        setattr(lib, m, mod)
    lib.dir = os.path.dirname(os.path.realpath(lib.common.__file__))
    lib.crypto_modules_at_load = sorted(m for m in sys.modules if m.startswith("cryptography"))
    c = lib.common
    lib.CCT_Error = c.CCT_Error
    lib.SignatureError = c.SignatureError
    lib.MetadataVerificationError = c.MetadataVerificationError
    lib.UnknownRoleError = c.UnknownRoleError
    lib.modules = [getattr(lib, m) for m in ("common", "signing", "authentication", "root_signing",
                                              "metadata_construction", "cli")]
    _snapshot_state(lib)
    _LIB = lib
    return lib


_BASE = {}


def _snapshot_state(lib):
    """Remember the library's module-level state right after import, so that every simulated run (and
    every replay) starts from the same state even if the code under test keeps state between calls."""
    import copy as _copy
    import types
    for mod in lib.modules:
        names = dict(mod.__dict__)
        conts = {}
        defaults = {}
        for k, v in names.items():
            if isinstance(v, (dict, list, set)) and not k.startswith("__"):
                try:
                    conts[k] = _copy.deepcopy(v)
                except Exception:
                    pass
            if isinstance(v, types.FunctionType) and v.__module__ == mod.__name__:
                if v.__defaults__ and any(isinstance(d, (dict, list, set)) for d in v.__defaults__):
                    defaults[k] = _copy.deepcopy(v.__defaults__)
        _BASE[mod.__name__] = (names, conts, defaults)


def reset_library_state():
    lib = _LIB
    if lib is None:
        return
    import copy as _copy
    import types
    for mod in lib.modules:
        names, conts, defaults = _BASE[mod.__name__]
        d = mod.__dict__
        for k in [k for k in d if k not in names]:
            del d[k]
        for k, v in names.items():
            if d.get(k, None) is not v:
                d[k] = v
            if k in conts:
                fresh = _copy.deepcopy(conts[k])
                if isinstance(v, dict):
                    v.clear(); v.update(fresh)
                elif isinstance(v, list):
                    v[:] = fresh
                elif isinstance(v, set):
                    v.clear(); v.update(fresh)
            if k in defaults:
                v.__defaults__ = _copy.deepcopy(defaults[k])
            cc = getattr(v, "cache_clear", None)
            if cc is not None and callable(cc):
                try:
                    cc()
                except Exception:
                    pass
            if isinstance(v, types.FunctionType) and v.__module__ == mod.__name__ and v.__dict__:
                for a in [a for a in v.__dict__ if a != "__wrapped__"]:
                    del v.__dict__[a]


# ---------------------------------------------------------------------------------- stdout


class SimStdout:
    """Replaces sys.stdout while the library runs.  Real TextIOWrapper with the run's encoding and
    errors='strict', so that what the library prints meets a real codec."""

    def __init__(self, encoding="utf-8"):
        self.encoding = encoding
        self.sink = io.BytesIO()
        self.stream = io.TextIOWrapper(self.sink, encoding=encoding, errors="strict", write_through=True)
        self._saved = None

    def __enter__(self):
        self._saved = sys.stdout
        sys.stdout = self.stream
        return self

    def __exit__(self, *a):
        sys.stdout = self._saved
        # discard any partially encoded pending text so that one failure does not poison later calls
        try:
            self.stream.flush()
        except Exception:
            pass
        return False

    def reset(self):
        self.sink.seek(0)
        self.sink.truncate(0)

    def text(self):
        return self.sink.getvalue()


# ---------------------------------------------------------------------------------- library calls

VERIFIERS = {"verify_signable", "verify_delegation", "verify_root", "verify_signature",
             "verify_gpg_signature"}
SINGLE_SIG = {"verify_signature", "verify_gpg_signature"}


class Outcome:
    __slots__ = ("ok", "value", "exc", "cls")

    def __init__(self, ok, value=None, exc=None):
        self.ok = ok
        self.value = value
        self.exc = exc
        self.cls = "return" if ok else type(exc).__name__

    def __repr__(self):
        return "<%s>" % (self.cls if self.ok else "%s: %s" % (self.cls, str(self.exc)[:120]))


def exc_family(lib, fname, exc):
    """Documented error families (C13)."""
    if isinstance(exc, (lib.CCT_Error, TypeError, ValueError)):
        return True
    if fname in SINGLE_SIG and type(exc).__name__ == "InvalidSignature" \
            and type(exc).__module__.startswith("cryptography"):
        return True
    return False


def exc_site(lib, exc):
    """Innermost library frame of an exception: 'module.py:function' (stable across line shifts)."""
    tb = exc.__traceback__
    site = "?"
    while tb is not None:
        fn = tb.tb_frame.f_code.co_filename
        if os.path.realpath(fn).startswith(lib.dir):
            site = "%s:%s" % (os.path.basename(fn), tb.tb_frame.f_code.co_name)
        tb = tb.tb_next
    return site


class LibCalls:
    """All calls into validators/verifiers made by any simulated party go through call()."""

    def __init__(self, run, lib, encoding="utf-8", monitor_args=True):
        self.run = run
        self.lib = lib
        self.out = SimStdout(encoding)
        self.monitor_args = monitor_args
        self.table = {}
        for mod in (lib.authentication, lib.common, lib.signing, lib.metadata_construction,
                    lib.root_signing, lib.cli):
            for k, v in vars(mod).items():
                if callable(v) and not k.startswith("__") and getattr(v, "__module__", None) == mod.__name__:
                    self.table.setdefault(k, (mod, k))

    def fn(self, name):
        mod, k = self.table[name]
        return getattr(mod, k)  # looked up at call time (patches are honoured)

    def call(self, name, *args, **kw):
        """Call a verifier/validator: stdout simulated, C13 + C12 monitors on."""
        run = self.run
        run.libcalls += 1
        f = self.fn(name)
        before = snapshot((args, kw)) if self.monitor_args else None
        with self.out:
            try:
                v = f(*args, **kw)
                o = Outcome(True, v)
            except Exception as e:  # noqa: BLE001 - classified below
                o = Outcome(False, exc=e)
        if self.monitor_args:
            after = snapshot((args, kw))
            if after != before:
                run.violate("C12", "arg-mutated", "%s changed its arguments" % name, "arg-mutated:" + name)
        if not o.ok and not exc_family(self.lib, name, o.exc):
            site = exc_site(self.lib, o.exc)
            run.violate("C13", "error-family",
                        "%s raised %s: %s (at %s)" % (name, o.cls, str(o.exc)[:200], site),
                        "%s:%s@%s" % (name, o.cls, site))
        if name in VERIFIERS:
            if o.ok:
                run.accepts += 1
            else:
                run.rejects += 1
        run.ev("call", name, o.cls)
        return o

    def raw(self, name, *args, **kw):
        """Call a non-verifier (signer, builder, file helper) under simulated stdout; exceptions are
        returned, not judged."""
        self.run.libcalls += 1
        f = self.fn(name)
        with self.out:
            try:
                return Outcome(True, f(*args, **kw))
            except BaseException as e:  # noqa: BLE001
                if isinstance(e, (SystemExit, GeneratorExit)):
                    raise
                return Outcome(False, exc=e)


# ---------------------------------------------------------------------------------- patcher


class Patcher:
    def __init__(self):
        self.saved = []

    def set(self, mod, name, value):
        missing = object()
        old = mod.__dict__.get(name, missing)
        self.saved.append((mod, name, old, missing))
        setattr(mod, name, value)

    def restore(self):
        for mod, name, old, missing in reversed(self.saved):
            if old is missing:
                try:
                    delattr(mod, name)
                except AttributeError:
                    pass
            else:
                setattr(mod, name, old)
        self.saved = []


# ---------------------------------------------------------------------------------- SimFS


class InjectedFault(Exception):
    """Private exception class used for injected failures (not in any documented family)."""


class SimCrash(BaseException):
    """Raised at a crash point: the process dies here; only durable state survives."""


_ERRNO = {"ENOENT": errno.ENOENT, "EACCES": errno.EACCES, "EIO": errno.EIO, "ENOSPC": errno.ENOSPC,
          "EMFILE": errno.EMFILE, "EISDIR": errno.EISDIR}


def oserror(code, path=None):
    return OSError(_ERRNO[code], os.strerror(_ERRNO[code]), path)


class SimFile:
    def __init__(self, fs, path, mode, data):
        self.fs, self.path, self.mode = fs, path, mode
        self.binary = "b" in mode
        self.writing = "w" in mode
        self.buf = bytearray() if self.writing else None
        self.data = data
        self.pos = 0
        self.closed = False
        self.name = path

    def __enter__(self):
        return self

    def __exit__(self, et, ev, tb):
        self.close()
        return False

    def readable(self):
        return not self.writing

    def writable(self):
        return self.writing

    def read(self, n=-1):
        self.fs._op("read", self.path)
        if self.writing:
            raise io.UnsupportedOperation("not readable")
        d = self.data[self.pos:] if n is None or n < 0 else self.data[self.pos:self.pos + n]
        short = self.fs._short("read", self.path)
        if short is not None and len(d) > 0:
            d = d[:max(0, min(len(d), short))]
        self.pos += len(d)
        d = bytes(d)
        return d if self.binary else d.decode("utf-8")

    def write(self, b):
        self.fs._op("write", self.path)
        if not self.writing:
            raise io.UnsupportedOperation("not writable")
        if not self.binary:
            b = b.encode("utf-8")
        b = bytes(b)
        self.fs.events.append(("write", self.path, len(b)))
        short = self.fs._short("write", self.path)
        if short is not None and len(b) > 0:
            k = max(0, min(len(b) - 1, short))
            self.buf += b[:k]
            self.fs.volatile[self.path] = bytes(self.buf)
            raise oserror("ENOSPC", self.path)
        self.buf += b
        self.fs.volatile[self.path] = bytes(self.buf)
        self.fs.written[self.path] = self.fs.written.get(self.path, b"") + b
        return len(b)

    def flush(self):
        pass

    def close(self):
        if self.closed:
            return
        self.closed = True
        if self.writing:
            try:
                self.fs._op("close", self.path)
            finally:
                # closing makes the buffered content the file's content (still no fsync in the library)
                self.fs.files[self.path] = bytes(self.buf)
                self.fs.now += self.fs.tick
                self.fs.mtime[self.path] = self.fs.now
                self.fs.volatile.pop(self.path, None)
                self.fs.open_for_write.discard(self.path)
                self.fs.events.append(("close", self.path))


class SimFS:
    """In-memory file system.  `files` = content visible to readers and surviving a clean shutdown;
    `volatile` = content of files currently open for (truncating) write; `pre_open` = content before
    the truncating open, used to model what a crash can leave behind."""

    def __init__(self, run=None):
        self.run = run
        self.files = {}
        self.dirs = set()
        self.volatile = {}
        self.pre_open = {}
        self.open_for_write = set()
        self.written = {}
        self.events = []       # ("open_r"|"open_w"|"write"|"close", path, ...)
        self.mtime = {}        # path -> simulated modification time (seconds)
        self.now = 1700000000.0
        self.tick = 0.3        # simulated seconds that pass per write-closing operation
        self.plan = {}         # op-counter -> fault
        self.counter = 0
        self.fired = []
        self.short = {}        # op-counter -> short length

    # --- fault plan -------------------------------------------------------------------------
    def _op(self, kind, path):
        self.counter += 1
        f = self.plan.get(self.counter)
        if f is not None:
            self.fired.append((kind, path, f))
            if self.run is not None:
                self.run.fault("io_%s_%s" % (kind, f))
            if f == "CRASH":
                raise SimCrash(kind, path)
            if f == "SHORT":
                return
            raise oserror(f, path)

    def _short(self, kind, path):
        return self.short.pop(self.counter, None)

    # --- the injected `open` ----------------------------------------------------------------
    def open(self, path, mode="r", *a, **kw):
        path = os.fspath(path)
        if not isinstance(path, str):
            raise TypeError("SimFS path must be str")
        if "w" in mode:
            self.events.append(("open_w", path))
            self._op("open_w", path)
            if path in self.dirs:
                raise oserror("EISDIR", path)
            self.pre_open[path] = self.files.get(path)
            self.files[path] = b""           # truncation is immediately visible
            self.volatile[path] = b""
            self.open_for_write.add(path)
            self.written[path] = b""
            return SimFile(self, path, mode, None)
        self.events.append(("open_r", path))
        self._op("open_r", path)
        if path in self.dirs:
            raise oserror("EISDIR", path)
        if path not in self.files:
            raise oserror("ENOENT", path)
        return SimFile(self, path, mode, self.files[path])

    # --- harness-side helpers (no fault plan) -----------------------------------------------
    def put(self, path, data):
        self.files[path] = bytes(data)
        self.now += self.tick
        self.mtime[path] = self.now

    # --- stat seam: code that asks the OS about a simulated file gets simulated answers ---------------
    def install_stat(self, patcher):
        """Route os.stat / os.path.{exists,isfile,getsize,getmtime} through the simulated file system for simulated
        paths (anything else falls through to the real OS).  A cache keyed on stat() results is a realistic change
        to file-handling code; without this seam it would escape to the real disk."""
        import os as _os
        import stat as _stat
        fs = self
        real_stat = _os.stat

        def sim_stat(path, *a, **kw):
            try:
                p = _os.fspath(path)
            except TypeError:
                return real_stat(path, *a, **kw)
            if isinstance(p, bytes):
                p = p.decode("utf-8", "surrogateescape")
            rel = p
            cwd = _os.getcwd()
            if p.startswith(cwd + _os.sep):
                rel = p[len(cwd) + 1:]
            if rel in fs.files:
                m = fs.mtime.get(rel, fs.now)
                ns = int(round(m * 1e9))
                return _os.stat_result((_stat.S_IFREG | 0o644, hash(rel) & 0xFFFFFF, 1, 1, 0, 0, len(fs.files[rel]), int(m), int(m), int(m),
                                        m, m, m, ns, ns, ns))
            if rel in fs.dirs:
                return _os.stat_result((_stat.S_IFDIR | 0o755, 1, 1, 1, 0, 0, 0, 0, 0, 0))
            return real_stat(path, *a, **kw)

        patcher.set(_os, "stat", sim_stat)
        import genericpath
        for mod in (genericpath, _os.path):
            patcher.set(mod, "exists", lambda p, _s=sim_stat: _try(_s, p) is not None)
            patcher.set(mod, "isfile", lambda p, _s=sim_stat: (lambda r: r is not None and _stat.S_ISREG(r.st_mode))(_try(_s, p)))
            patcher.set(mod, "getsize", lambda p, _s=sim_stat: _s(p).st_size)
            patcher.set(mod, "getmtime", lambda p, _s=sim_stat: _s(p).st_mtime)

    def get(self, path):
        return self.files.get(path)

    def crash_outcomes(self, path):
        """Contents a crash during an un-closed truncating write may leave (old, empty, prefixes)."""
        outs = []
        old = self.pre_open.get(path)
        outs.append(old)
        cur = self.volatile.get(path, b"")
        outs.append(b"")
        outs.append(cur)
        return outs


def _try(f, p):
    try:
        return f(p)
    except (OSError, ValueError, TypeError):
        return None


# ---------------------------------------------------------------------------------- clock


class SimClockState:
    def __init__(self, epoch=1600000000.0, utc_offset_h=0):
        self.now = float(epoch)
        self.reads = 0
        self.hook = None        # called with read index before each read; may move the clock
        self.utc_offset_h = utc_offset_h
        self.local_reads = 0


def make_clock_class(state):
    base = _dt.datetime

    class SimDateTime(base):
        @classmethod
        def utcnow(cls):
            state.reads += 1
            if state.hook:
                state.hook(state.reads)
            t = base(1970, 1, 1) + _dt.timedelta(seconds=state.now)
            return cls(t.year, t.month, t.day, t.hour, t.minute, t.second, t.microsecond)

        @classmethod
        def now(cls, tz=None):
            state.reads += 1
            state.local_reads += 1
            if state.hook:
                state.hook(state.reads)
            if tz is not None:
                t = base.fromtimestamp(state.now, tz)
                return t
            t = base(1970, 1, 1) + _dt.timedelta(seconds=state.now + 3600 * state.utc_offset_h)
            return cls(t.year, t.month, t.day, t.hour, t.minute, t.second, t.microsecond)

        @classmethod
        def today(cls):
            return cls.now()

    SimDateTime.__name__ = "datetime"
    return SimDateTime


# ---------------------------------------------------------------------------------- tracer tools


class LineTracer:
    """sys.settrace-based tools restricted to frames of the library.

    mode 'count' : count line events (and record (file, line, func) per event)
    mode 'inject': raise `exc` at the k-th line event
    Also records call/return events of selected function names into `events`.
    """

    def __init__(self, libdir, watch=(), events=None):
        self.libdir = libdir
        self.watch = set(watch)
        self.events = events if events is not None else []
        self.n = 0
        self.points = []
        self.inject_at = None
        self.inject_exc = None
        self.fired = False
        self._cache = {}
        self.stop_counting = None   # callable -> True when output phase began

    def _inlib(self, code):
        r = self._cache.get(code)
        if r is None:
            r = os.path.realpath(code.co_filename).startswith(self.libdir)
            self._cache[code] = r
        return r

    def _global(self, frame, event, arg):
        if event != "call":
            return None
        code = frame.f_code
        if not self._inlib(code):
            return None
        if code.co_name in self.watch:
            self.events.append(("call", code.co_name))
        return self._local

    def _local(self, frame, event, arg):
        if event == "line":
            self.n += 1
            if self.inject_at is None:
                self.points.append((os.path.basename(frame.f_code.co_filename), frame.f_lineno,
                                    frame.f_code.co_name, len(self.events)))
            elif self.n == self.inject_at and not self.fired:
                self.fired = True
                sys.settrace(None)
                raise self.inject_exc
        elif event == "return":
            if frame.f_code.co_name in self.watch:
                self.events.append(("return", frame.f_code.co_name))
        return self._local

    def __enter__(self):
        sys.settrace(self._global)
        return self

    def __exit__(self, *a):
        sys.settrace(None)
        return False
