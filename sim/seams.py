"""Seams: everything nondeterministic or faulty that the library can touch goes through here.

* load_library()      import conda_content_trust from VERIF_REPO (default /repo), nothing cached
* SimStdout           real codec machinery (io.TextIOWrapper, errors='strict') over a BytesIO sink
* LibCalls            every call any simulated party makes into the library; global monitors
                      (C13 error families, C12 argument immutability) live here
* SimFS               in-memory file system injected as `open` into the library's module namespaces,
                      volatile/durable split, per-operation fault plan
* SimClock            datetime subclass installed as common.datetime
* Patcher             module-attribute injection with guaranteed restore
* Tracer tools        sys.settrace line counter / exception injector / call-return logger
"""
import errno
import importlib
import io
import os
import sys
import datetime as _dt

from refmodel import snapshot

REPO = os.environ.get("VERIF_REPO", "/repo")


class Lib:
    pass


_LIB = None


def load_library():
    """Import the working tree of the library.  'Rebuild' for a pure-Python package = import it fresh."""
    global _LIB
    if _LIB is not None:
        return _LIB
    sys.dont_write_bytecode = True
    if sys.path[0] != REPO:
        sys.path.insert(0, REPO)
    lib = Lib()
    for m in ("common", "signing", "authentication", "root_signing", "metadata_construction", "cli"):
        mod = importlib.import_module("conda_content_trust." + m)
        f = os.path.realpath(mod.__file__)
        if not f.startswith(os.path.realpath(REPO) + os.sep):
            raise RuntimeError("library imported from %s, expected under %s" % (f, REPO))
        setattr(lib, m, mod)
    lib.dir = os.path.dirname(os.path.realpath(lib.common.__file__))
    lib.crypto_modules_at_load = sorted(m for m in sys.modules if m.startswith("cryptography"))
    c = lib.common
    lib.CCT_Error = c.CCT_Error
    lib.SignatureError = c.SignatureError
    lib.MetadataVerificationError = c.MetadataVerificationError
    lib.UnknownRoleError = c.UnknownRoleError
    # every module of the package that got imported (robust against code moving between modules or new modules)
    lib.modules = [m for n, m in sorted(sys.modules.items())
                   if n.startswith("conda_content_trust.") and m is not None and getattr(m, "__file__", None)
                   and os.path.realpath(m.__file__).startswith(lib.dir)]
    _snapshot_state(lib)
    lib.int_constants = _harvest_int_constants(lib)
    _LIB = lib
    return lib


def _harvest_int_constants(lib):
    """Integer literals of the code under test (module / class attributes and the constants of every function's code object,
    constant-folded products included): block sizes, caps, cache sizes.  The generators aim sizes and counts at them and their
    neighbours, the way a fuzzer uses a dictionary of comparison operands.  Nothing in the library is changed."""
    import types
    out, seen = set(), set()
    lo, hi = 2, 64 * 1024 * 1024

    def code(c):
        if c in seen:
            return
        seen.add(c)
        for k in c.co_consts:
            if type(k) is int and lo <= k <= hi:
                out.add(k)
            elif isinstance(k, types.CodeType):
                code(k)
            elif isinstance(k, (tuple, frozenset)):
                for x in k:
                    if type(x) is int and lo <= x <= hi:
                        out.add(x)

    def visit(ns, modname):
        for v in list(ns.values()):
            if type(v) is int and lo <= v <= hi:
                out.add(v)
            f = getattr(v, "__code__", None) or getattr(getattr(v, "__func__", None), "__code__", None)
            if isinstance(f, types.CodeType) and getattr(v, "__module__", modname) == modname:
                code(f)
                for d in (getattr(v, "__defaults__", None) or ()):
                    if type(d) is int and lo <= d <= hi:
                        out.add(d)
            if isinstance(v, type) and getattr(v, "__module__", None) == modname:
                visit(dict(vars(v)), modname)
    for mod in lib.modules:
        visit(dict(vars(mod)), mod.__name__)
    return sorted(out)


_BASE = {}


def _snapshot_state(lib):
    """Remember the library's module-level state right after import, so that every simulated run (and
    every replay) starts from the same state even if the code under test keeps state between calls."""
    import copy as _copy
    import types
    for mod in lib.modules:
        names = dict(mod.__dict__)
        conts = {}
        defaults = {}
        for k, v in names.items():
            if isinstance(v, (dict, list, set)) and not k.startswith("__"):
                try:
                    conts[k] = _copy.deepcopy(v)
                except Exception:
                    pass
            if isinstance(v, types.FunctionType) and v.__module__ == mod.__name__:
                if v.__defaults__ and any(isinstance(d, (dict, list, set)) for d in v.__defaults__):
                    defaults[k] = _copy.deepcopy(v.__defaults__)
        _BASE[mod.__name__] = (names, conts, defaults)


def reset_library_state():
    lib = _LIB
    if lib is None:
        return
    import copy as _copy
    import types
    for mod in lib.modules:
        names, conts, defaults = _BASE[mod.__name__]
        d = mod.__dict__
        for k in [k for k in d if k not in names]:
            del d[k]
        for k, v in names.items():
            if d.get(k, None) is not v:
                d[k] = v
            if k in conts:
                fresh = _copy.deepcopy(conts[k])
                if isinstance(v, dict):
                    v.clear(); v.update(fresh)
                elif isinstance(v, list):
                    v[:] = fresh
                elif isinstance(v, set):
                    v.clear(); v.update(fresh)
            if k in defaults:
                v.__defaults__ = _copy.deepcopy(defaults[k])
            cc = getattr(v, "cache_clear", None)
            if cc is not None and callable(cc):
                try:
                    cc()
                except Exception:
                    pass
            if isinstance(v, types.FunctionType) and v.__module__ == mod.__name__ and v.__dict__:
                for a in [a for a in v.__dict__ if a != "__wrapped__"]:
                    del v.__dict__[a]
    # seams injected by the running world stay in place
    for (mname, name), (mod, value) in _INJECTED.items():
        setattr(mod, name, value)


# ---------------------------------------------------------------------------------- stdout


class FaultySink(io.BufferedIOBase):
    """Byte sink behind the simulated stdout.  The n-th write can fail the way a real stdout does: ENOSPC (full
    device), EPIPE (reader gone), EIO, or ValueError (closed file)."""

    def __init__(self):
        self.data = bytearray()
        self.writes = 0
        self.fail_at = None
        self.fail_kind = "ENOSPC"
        self.fired = 0

    def writable(self):
        return True

    def write(self, b):
        self.writes += 1
        if self.fail_at is not None and self.writes >= self.fail_at:
            self.fired += 1
            if self.fail_kind == "closed":
                raise ValueError("I/O operation on closed file.")
            code = {"ENOSPC": errno.ENOSPC, "EPIPE": errno.EPIPE, "EIO": errno.EIO}[self.fail_kind]
            if self.fail_kind == "EPIPE":
                raise BrokenPipeError(code, os.strerror(code))
            raise OSError(code, os.strerror(code))
        if len(self.data) < 1 << 20:
            self.data += bytes(b)
        return len(b)

    def flush(self):
        pass

    def getvalue(self):
        return bytes(self.data)

    def seek(self, *a):
        return 0

    def truncate(self, *a):
        del self.data[:]
        return 0


class SimStdout:
    """Replaces sys.stdout while the library runs.  Real TextIOWrapper with the run's encoding and
    errors='strict', so that what the library prints meets a real codec."""

    def __init__(self, encoding="utf-8"):
        self.encoding = encoding
        self.sink = FaultySink()
        self.stream = io.TextIOWrapper(self.sink, encoding=encoding, errors="strict", write_through=True)
        self._saved = None

    def arm(self, nth_write, kind):
        self.sink.fail_at = self.sink.writes + nth_write
        self.sink.fail_kind = kind
        self.sink.fired = 0

    def disarm(self):
        fired = self.sink.fired
        self.sink.fail_at = None
        self.sink.fired = 0
        return fired

    def __enter__(self):
        self._saved = sys.stdout
        sys.stdout = self.stream
        return self

    def __exit__(self, *a):
        sys.stdout = self._saved
        # discard any partially encoded pending text so that one failure does not poison later calls
        try:
            self.stream.flush()
        except Exception:
            pass
        return False

    def reset(self):
        self.sink.truncate(0)

    def text(self):
        return self.sink.getvalue()


# ---------------------------------------------------------------------------------- library calls

VERIFIERS = {"verify_signable", "verify_delegation", "verify_root", "verify_signature",
             "verify_gpg_signature"}
SINGLE_SIG = {"verify_signature", "verify_gpg_signature"}


class Outcome:
    __slots__ = ("ok", "value", "exc", "cls")

    def __init__(self, ok, value=None, exc=None):
        self.ok = ok
        self.value = value
        self.exc = exc
        self.cls = "return" if ok else type(exc).__name__

    def __repr__(self):
        return "<%s>" % (self.cls if self.ok else "%s: %s" % (self.cls, str(self.exc)[:120]))


def exc_family(lib, fname, exc):
    """Documented error families (C13)."""
    if isinstance(exc, (lib.CCT_Error, TypeError, ValueError)):
        return True
    if fname in SINGLE_SIG and type(exc).__name__ == "InvalidSignature" \
            and type(exc).__module__.startswith("cryptography"):
        return True
    return False


def exc_site(lib, exc):
    """Innermost library frame of an exception: 'module.py:function' (stable across line shifts)."""
    tb = exc.__traceback__
    site = "?"
    while tb is not None:
        fn = tb.tb_frame.f_code.co_filename
        if os.path.realpath(fn).startswith(lib.dir):
            site = "%s:%s" % (os.path.basename(fn), tb.tb_frame.f_code.co_name)
        tb = tb.tb_next
    return site


class LibTimeout(BaseException):
    """Raised by the watchdog when one library call does not return within its wall-clock budget."""


class _Watchdog:
    """Per-call termination guard (C13 'terminate'): SIGALRM after `seconds` of wall clock in the main thread.
    A call that does not come back is reported as a violation instead of hanging the worker."""

    def __init__(self, seconds=30.0):
        self.seconds = seconds
        self.active = False

    def __enter__(self):
        import signal
        import threading
        self.active = threading.current_thread() is threading.main_thread() and hasattr(signal, "setitimer")
        if self.active:
            def onalarm(signum, frame):
                raise LibTimeout()
            self._old = signal.signal(signal.SIGALRM, onalarm)
            signal.setitimer(signal.ITIMER_REAL, self.seconds)
        return self

    def __exit__(self, *a):
        if self.active:
            import signal
            signal.setitimer(signal.ITIMER_REAL, 0)
            signal.signal(signal.SIGALRM, self._old)
        return False


def _carries_redos(v, budget=None):
    """Does the value (looked at down to a few hundred nodes) hold one of gen.REDOS?"""
    import gen as _gen
    rs = getattr(_gen, "_REDOS_SET", None)
    if rs is None:
        rs = _gen._REDOS_SET = set(_gen.REDOS)
    budget = budget if budget is not None else [400]
    stack = [v]
    while stack and budget[0] > 0:
        x = stack.pop()
        budget[0] -= 1
        if type(x) is str:
            if x in rs:
                return x
        elif isinstance(x, dict):
            stack.extend(x.keys())
            stack.extend(x.values())
        elif isinstance(x, (list, tuple)):
            stack.extend(x)
    return None


# calls whose outcome legitimately depends on things a forked copy does not share (real sub-processes, descriptors)
_NO_HISTORY_CHECK = {"sign_root_metadata_via_gpg", "sign_root_metadata_dict_via_gpg", "sign_via_gpg", "fetch_keyval_from_gpg"}


class LibCalls:
    """All calls into validators/verifiers made by any simulated party go through call()."""

    def __init__(self, run, lib, encoding="utf-8", monitor_args=True, werror=False):
        self.run = run
        self.lib = lib
        self.out = SimStdout(encoding)
        self.monitor_args = monitor_args
        self.werror = werror          # process configuration: warnings escalated to errors (python -W error)
        self.table = {}
        for mod in (lib.authentication, lib.common, lib.signing, lib.metadata_construction,
                    lib.root_signing, lib.cli):
            for k, v in vars(mod).items():
                if callable(v) and not k.startswith("__") and getattr(v, "__module__", None) == mod.__name__:
                    self.table.setdefault(k, (mod, k))

    def fn(self, name):
        mod, k = self.table[name]
        return getattr(mod, k)  # looked up at call time (patches are honoured)

    def terminates(self, name, args, kw, timeout=12.0):
        """Does the call come back at all?  Made by a forked copy of this process which the parent kills after `timeout` seconds of wall
        clock - the only way to stop a call that is stuck inside C code (a backtracking pattern match) where no Python-level alarm is
        delivered.  Used for calls whose arguments carry strings built to make pattern matchers explode."""
        import os as _os
        import time as _time
        try:
            pid = _os.fork()
        except (OSError, AttributeError):
            return True
        if pid == 0:
            try:
                import signal as _sg
                _sg.alarm(0)
                f = self.fn(name)
                with self.out:
                    try:
                        f(*args, **kw)
                    except BaseException:  # noqa: BLE001
                        pass
            finally:
                _os._exit(0)
        t0 = _time.monotonic()
        while True:
            done, _ = _os.waitpid(pid, _os.WNOHANG)
            if done:
                return True
            if _time.monotonic() - t0 > timeout:
                try:
                    _os.kill(pid, 9)
                except OSError:
                    pass
                _os.waitpid(pid, 0)
                return False
            _time.sleep(0.02)

    def _preflight(self, name, args, kw):
        """True if the call may proceed in this process."""
        if os.environ.get("VERIF_PREFLIGHT") == "0":
            return True
        hit = _carries_redos((args, kw))
        if not hit:
            return True
        seen = self.__dict__.setdefault("_preflighted", {})
        try:
            key = (name, hit, hash(repr((args, kw))[:20000]))
        except Exception:  # noqa: BLE001
            key = (name, hit, self.run.libcalls)
        if key in seen:
            return seen[key]             # this function has already been tried on exactly these arguments in this run
        self.run.probe("preflight_for_pathological_string")
        seen[key] = self.terminates(name, args, kw)
        if seen[key]:
            return True
        self.run.violate(("C13",), "did-not-terminate", "%s did not return within 12 s of wall clock on an argument carrying a string built to make "
                         "backtracking pattern matchers explode" % name, "did-not-terminate:" + name)
        return False

    def fresh_outcome(self, name, args, kw):
        """(ok, class name) of the same call made by a forked copy of this process whose library state has been put back to what it
        is right after import - the arguments, the simulated files, clock and callees are exactly the parent's.  None if unavailable."""
        import os as _os
        if not hasattr(_os, "fork"):
            return None
        rd, wr = _os.pipe()
        try:
            pid = _os.fork()
        except OSError:
            _os.close(rd); _os.close(wr)
            return None
        if pid == 0:
            code = b"E"
            try:
                _os.close(rd)
                import signal as _sg
                _sg.alarm(0)
                reset_library_state()
                f = self.fn(name)
                import warnings as _w
                with self.out, _w.catch_warnings():
                    if self.werror:
                        _w.simplefilter("error")
                    try:
                        f(*args, **kw)
                        code = b"1:return"
                    except Exception as e:  # noqa: BLE001
                        code = b"0:" + type(e).__name__.encode("ascii", "replace")
            except BaseException:  # noqa: BLE001
                code = b"E"
            finally:
                try:
                    _os.write(wr, code)
                finally:
                    _os._exit(0)
        _os.close(wr)
        data = b""
        import select as _select
        import time as _time
        t0 = _time.monotonic()
        while True:
            left = 40.0 - (_time.monotonic() - t0)
            if left <= 0:
                # the copy is stuck (inside C code no alarm reaches it): end it; the caller gets "unavailable"
                try:
                    _os.kill(pid, 9)
                except OSError:
                    pass
                data = b"E"
                self.run.probe("fresh_state_copy_did_not_return")
                break
            r, _, _ = _select.select([rd], [], [], min(left, 1.0))
            if not r:
                continue
            chunk = _os.read(rd, 4096)
            if not chunk:
                break
            data += chunk
        _os.close(rd)
        _os.waitpid(pid, 0)
        if not data or data == b"E":
            return None
        ok, _, cls = data.decode("ascii", "replace").partition(":")
        return (ok == "1", cls)

    def call(self, name, *args, **kw):
        """Call a verifier/validator: stdout simulated, C13 + C12 monitors on."""
        run = self.run
        run.libcalls += 1
        f = self.fn(name)
        if not self._preflight(name, args, kw):
            return Outcome(False, exc=RuntimeError("timeout"))
        if getattr(run, "hist_check", False):
            pre = self.fresh_outcome(name, args, kw)     # evaluated first: the parent's own call may change its arguments
        else:
            pre = None
        before = snapshot((args, kw)) if self.monitor_args else None
        import warnings as _w
        try:
            with self.out, _w.catch_warnings(), _Watchdog():
                if self.werror:
                    _w.simplefilter("error")
                try:
                    v = f(*args, **kw)
                    o = Outcome(True, v)
                except Exception as e:  # noqa: BLE001 - classified below
                    o = Outcome(False, exc=e)
        except LibTimeout:
            run.violate(("C13",), "did-not-terminate", "%s did not return within 30 s of wall clock" % name, "did-not-terminate:" + name)
            o = Outcome(False, exc=RuntimeError("timeout"))
        if self.monitor_args:
            after = snapshot((args, kw))
            if after != before:
                run.violate("C12", "arg-mutated", "%s changed its arguments" % name, "arg-mutated:" + name)
        if not o.ok and not exc_family(self.lib, name, o.exc):
            site = exc_site(self.lib, o.exc)
            run.violate("C13", "error-family",
                        "%s raised %s: %s (at %s)" % (name, o.cls, str(o.exc)[:200], site),
                        "%s:%s@%s" % (name, o.cls, site))
        if name in VERIFIERS:
            if o.ok:
                run.accepts += 1
            else:
                run.rejects += 1
        run.ev("call", name, o.cls)
        if pre is not None and not run.stop:
            run.probe("outcome_compared_with_fresh_state")
            mine = (o.ok, "return" if o.ok else o.cls)
            if pre != mine:
                run.violate(("C12",), "outcome-depends-on-history",
                            "%s gave %s after this run's earlier calls but %s when the same call is made on freshly imported library state"
                            % (name, mine[1], pre[1]), "outcome-depends-on-history:" + name)
        return o

    def faulted(self, name, line_k, exc, *args, **kw):
        """Call with an exception injected at the k-th line event executed inside library frames (if the call gets
        that far).  Returns (outcome, fired)."""
        tr = LineTracer(self.lib.dir)
        tr.inject_at = line_k
        tr.inject_exc = exc
        self.run.libcalls += 1
        f = self.fn(name)
        with self.out:
            try:
                with tr:
                    v = f(*args, **kw)
                o = Outcome(True, v)
            except BaseException as e:  # noqa: BLE001
                if isinstance(e, (SystemExit, GeneratorExit)):
                    raise
                o = Outcome(False, exc=e)
        return o, tr.fired

    def cli_main(self, argv):
        """Run the command line tool in-process through its public entry point cli(argv); returns an Outcome whose
        value is the exit status (SystemExit is translated)."""
        self.run.libcalls += 1
        import warnings as _w
        with self.out, _w.catch_warnings():
            if self.werror:
                _w.simplefilter("error")
            try:
                return Outcome(True, self.lib.cli.cli(list(argv)))
            except SystemExit as e:
                code = e.code if isinstance(e.code, int) else (0 if e.code is None else 1)
                return Outcome(True, code) if code == 0 else Outcome(False, exc=RuntimeError("SystemExit(%r)" % (e.code,)))
            except BaseException as e:  # noqa: BLE001
                if isinstance(e, GeneratorExit):
                    raise
                return Outcome(False, exc=e)

    def raw(self, name, *args, **kw):
        """Call a non-verifier (signer, builder, file helper) under simulated stdout; exceptions are
        returned, not judged."""
        self.run.libcalls += 1
        f = self.fn(name)
        if name not in _NO_HISTORY_CHECK and not self._preflight(name, args, kw):
            return Outcome(False, exc=RuntimeError("timeout"))
        pre = self.fresh_outcome(name, args, kw) if getattr(self.run, "hist_check", False) and name not in _NO_HISTORY_CHECK else None
        import warnings as _w
        with self.out, _w.catch_warnings():
            if self.werror:
                _w.simplefilter("error")
            try:
                o = Outcome(True, f(*args, **kw))
            except BaseException as e:  # noqa: BLE001
                if isinstance(e, (SystemExit, GeneratorExit)):
                    raise
                o = Outcome(False, exc=e)
        if pre is not None and not self.run.stop and isinstance(o.exc, (Exception, type(None))):
            self.run.probe("outcome_compared_with_fresh_state")
            mine = (o.ok, "return" if o.ok else o.cls)
            if pre != mine:
                self.run.violate(("C12",), "outcome-depends-on-history",
                                 "%s gave %s after this run's earlier calls but %s when the same call is made on freshly imported library state"
                                 % (name, mine[1], pre[1]), "outcome-depends-on-history:" + name)
        return o


# ---------------------------------------------------------------------------------- patcher


_INJECTED = {}     # (module name, attribute) -> value currently injected by a Patcher (survives reset_library_state)


class Patcher:
    def __init__(self):
        self.saved = []

    def set(self, mod, name, value):
        missing = object()
        old = mod.__dict__.get(name, missing)
        self.saved.append((mod, name, old, missing))
        setattr(mod, name, value)
        _INJECTED[(mod.__name__, name)] = (mod, value)

    def restore(self):
        for mod, name, old, missing in reversed(self.saved):
            _INJECTED.pop((mod.__name__, name), None)
            if old is missing:
                try:
                    delattr(mod, name)
                except AttributeError:
                    pass
            else:
                setattr(mod, name, old)
        self.saved = []


# ---------------------------------------------------------------------------------- SimFS


class InjectedFault(Exception):
    """Private exception class used for injected failures (not in any documented family)."""


class SimCrash(BaseException):
    """Raised at a crash point: the process dies here; only durable state survives."""


_ERRNO = {"ENOENT": errno.ENOENT, "EACCES": errno.EACCES, "EIO": errno.EIO, "ENOSPC": errno.ENOSPC,
          "EMFILE": errno.EMFILE, "EISDIR": errno.EISDIR, "EAGAIN": errno.EAGAIN, "EDEADLK": errno.EDEADLK, "ENOLCK": errno.ENOLCK,
          "EINTR": errno.EINTR, "EPERM": errno.EPERM, "EROFS": errno.EROFS}


def oserror(code, path=None):
    return OSError(_ERRNO[code], os.strerror(_ERRNO[code]), path)


class SimFile:
    """File object of the simulated file system.  Modes r / w / a with optional + and b; seek / tell / truncate;
    `raw` (buffering=0) files see partial writes the way an unbuffered POSIX write does (a short count is
    returned), buffered files retry transparently like io.BufferedWriter."""

    def __init__(self, fs, path, mode, data, raw=False):
        self.fs, self.path, self.mode = fs, path, mode
        self.binary = "b" in mode
        self.can_read = "r" in mode or "+" in mode
        self.writing = "w" in mode or "a" in mode or "+" in mode
        self.raw = raw
        self.content = bytearray(data or b"")
        self.pos = len(self.content) if "a" in mode else 0
        self.closed = False
        self.name = path
        self.dirty = "w" in mode

    # kept for code that looked at .buf (content written so far)
    @property
    def buf(self):
        return self.content

    def __enter__(self):
        return self

    def __exit__(self, et, ev, tb):
        self.close()
        return False

    def readable(self):
        return self.can_read

    def writable(self):
        return self.writing

    def seekable(self):
        return True

    def fileno(self):
        if self.closed:
            raise ValueError("I/O operation on closed file")
        fds = getattr(self.fs, "fds", None)
        if fds is None:
            raise io.UnsupportedOperation("simulated file has no descriptor")
        fd = getattr(self, "_fd", None)
        if fd is None or fds.get(fd) is not self:
            self.fs.fd_counter[0] += 1
            fd = self._fd = self.fs.fd_counter[0]
            fds[fd] = self
        return fd

    def tell(self):
        return self.pos

    def seek(self, off, whence=0):
        base = {0: 0, 1: self.pos, 2: len(self.content)}[whence]
        self.pos = max(0, base + off)
        return self.pos

    def truncate(self, size=None):
        if not self.writing:
            raise io.UnsupportedOperation("not writable")
        size = self.pos if size is None else size
        del self.content[size:]
        self.dirty = True
        self.fs.volatile[self.path] = bytes(self.content)
        return size

    def read(self, n=-1):
        self.fs._op("read", self.path)
        if not self.can_read:
            raise io.UnsupportedOperation("not readable")
        d = self.content[self.pos:] if n is None or n < 0 else self.content[self.pos:self.pos + n]
        short = self.fs._short("read", self.path)
        if short is not None and len(d) > 0:
            d = d[:max(0, min(len(d), short))]
        self.pos += len(d)
        d = bytes(d)
        return d if self.binary else d.decode("utf-8")

    def readall(self):
        return self.read()

    def _put(self, b):
        end = self.pos + len(b)
        if self.pos > len(self.content):
            self.content.extend(b"\x00" * (self.pos - len(self.content)))
        self.content[self.pos:end] = b
        self.pos = end
        self.dirty = True

    def write(self, b):
        self.fs._op("write", self.path)
        if not self.writing:
            raise io.UnsupportedOperation("not writable")
        if not self.binary:
            b = b.encode("utf-8")
        b = bytes(b)
        self.fs.events.append(("write", self.path, len(b)))
        short = self.fs._short("write", self.path)
        partial = self.fs._partial()
        if partial is not None and len(b) > 1:
            k = max(1, min(len(b) - 1, partial))
            if self.raw:
                # an unbuffered write may accept fewer bytes than offered and says so in its return value
                self._put(b[:k])
                self.fs.volatile[self.path] = bytes(self.content)
                self.fs.written[self.path] = self.fs.written.get(self.path, b"") + b[:k]
                return k
            # buffered writer: retries until everything is written
        if short is not None and len(b) > 0:
            k = max(0, min(len(b) - 1, short))
            self._put(b[:k])
            self.fs.volatile[self.path] = bytes(self.content)
            raise oserror("ENOSPC", self.path)
        self._put(b)
        self.fs.volatile[self.path] = bytes(self.content)
        self.fs.written[self.path] = self.fs.written.get(self.path, b"") + b
        return len(b)

    def flush(self):
        if self.writing and self.dirty and self.raw:
            self.fs.files[self.path] = bytes(self.content)

    def close(self):
        if self.closed:
            return
        self.closed = True
        fds = getattr(self.fs, "fds", None)
        if fds is not None and getattr(self, "_fd", None) is not None and fds.get(self._fd) is self:
            del fds[self._fd]
        if self.writing:
            try:
                self.fs._op("close", self.path)
            finally:
                # closing makes the written content the file's content (still no fsync in the library)
                if self.dirty or self.path not in self.fs.files:
                    self.fs.files[self.path] = bytes(self.content)
                    self.fs.now += self.fs.tick
                    self.fs.mtime[self.path] = self.fs.now
                self.fs.volatile.pop(self.path, None)
                self.fs.open_for_write.discard(self.path)
                self.fs.events.append(("close", self.path))


class SimFS:
    """In-memory file system.  `files` = content visible to readers and surviving a clean shutdown;
    `volatile` = content of files currently open for (truncating) write; `pre_open` = content before
    the truncating open, used to model what a crash can leave behind."""

    def __init__(self, run=None):
        self.run = run
        self.files = {}
        self.dirs = set()
        self.volatile = {}
        self.pre_open = {}
        self.open_for_write = set()
        self.written = {}
        self.events = []       # ("open_r"|"open_w"|"write"|"close", path, ...)
        self.mtime = {}        # path -> simulated modification time (seconds)
        self.now = 1700000000.0
        self.tick = 0.3        # simulated seconds that pass per write-closing operation
        self.plan = {}         # op-counter -> fault
        self.counter = 0
        self.fired = []
        self.short = {}        # op-counter -> short length
        self.partial = {}      # op-counter -> bytes the "kernel" accepts of that write (no error)
        self.opens_r = {}      # path -> number of opens for reading
        self.swap = {}         # path -> (n-th open for reading, content served from then on)

    # --- fault plan -------------------------------------------------------------------------
    def _op(self, kind, path):
        self.counter += 1
        f = self.plan.get(self.counter)
        if f is not None:
            self.fired.append((kind, path, f))
            if self.run is not None:
                self.run.fault("io_%s_%s" % (kind, f))
            if f == "CRASH":
                raise SimCrash(kind, path)
            if f == "SHORT":
                return
            raise oserror(f, path)

    def _short(self, kind, path):
        return self.short.pop(self.counter, None)

    # --- the injected `open` ----------------------------------------------------------------
    def open(self, path, mode="r", buffering=-1, *a, **kw):
        path = os.fspath(path)
        if isinstance(path, bytes):
            path = path.decode("utf-8", "surrogateescape")
        if not isinstance(path, str):
            raise TypeError("SimFS path must be str")
        path = self._norm(path)
        raw = buffering == 0
        if any(c in mode for c in "wa+x"):
            self.events.append(("open_w", path))
            self._op("open_w", path)
            if path in self.dirs:
                raise oserror("EISDIR", path)
            if "x" in mode and path in self.files:
                raise FileExistsError(errno.EEXIST, os.strerror(errno.EEXIST), path)
            if "w" not in mode and "a" not in mode and "x" not in mode and path not in self.files:
                raise oserror("ENOENT", path)          # r+ on a missing file
            self.pre_open[path] = self.files.get(path)
            self.open_for_write.add(path)
            self.written[path] = b""
            if "w" in mode or "x" in mode:
                self.files[path] = b""       # truncation is immediately visible
                self.volatile[path] = b""
                return SimFile(self, path, mode, None, raw)
            self.volatile[path] = self.files.get(path, b"")
            return SimFile(self, path, mode, self.files.get(path, b""), raw)
        self.events.append(("open_r", path))
        self._op("open_r", path)
        self.opens_r[path] = self.opens_r.get(path, 0) + 1
        sw = self.swap.get(path)
        if sw and self.opens_r[path] == sw[0]:
            # another process replaced the file between two opens of the same name
            self.files[path] = bytes(sw[1])
            self.now += self.tick
            self.mtime[path] = self.now
            if self.run is not None:
                self.run.fault("file_replaced_between_reads")
        if path in self.dirs:
            raise oserror("EISDIR", path)
        if path not in self.files:
            raise oserror("ENOENT", path)
        return SimFile(self, path, mode, self.files[path], raw)

    def _norm(self, p):
        cwd = os.getcwd()
        if p.startswith(cwd + os.sep):
            p = p[len(cwd) + 1:]
        return p

    def _partial(self):
        return self.partial.pop(self.counter, None)

    def _simulated(self, p):
        """Is p a path of the simulated file system (an existing file, or a new name in a directory that holds one)?"""
        if p in self.files or p in self.dirs:
            return True
        d = os.path.dirname(p)
        return any(os.path.dirname(k) == d for k in self.files) if d else False

    def install_open(self, patcher, lib, roots=()):
        """`open` in the namespace of every library module goes to the simulated file system; builtins.open / io.open
        (hence pathlib) are routed there too for paths under the simulated roots, and fall through otherwise."""
        import builtins
        import io as _io
        fs = self
        fs.roots = set(roots) | {"md", "repo", "keys", "net", "ceremony", "cli", "c0", "c1", "c2", "c3", "w0", "w1", "w2", "w3", "w4", "w5"}
        for mod in lib.modules:
            patcher.set(mod, "open", fs.open)
        real_open = builtins.open

        def dispatch(file, *a, **kw):
            try:
                p = os.fspath(file)
            except TypeError:
                return real_open(file, *a, **kw)
            if isinstance(p, bytes):
                p = p.decode("utf-8", "surrogateescape")
            q = fs._norm(p)
            if q in fs.files or q.split("/", 1)[0] in fs.roots:
                return fs.open(q, *a, **kw)
            return real_open(file, *a, **kw)

        patcher.set(builtins, "open", dispatch)
        patcher.set(_io, "open", dispatch)

    def install_fd(self, patcher):
        """Low-level descriptors for simulated files: os.open (honouring O_TRUNC / O_CREAT / O_EXCL / O_APPEND),
        os.fdopen, os.write, os.read, os.close, os.fsync, os.ftruncate, os.lseek.  Descriptors >= 100000 are simulated."""
        import os as _os
        fs = self
        fs.fds = {}
        real = {n: getattr(_os, n) for n in ("open", "fdopen", "write", "read", "close", "fsync", "ftruncate", "lseek", "fstat")}
        counter = fs.fd_counter = [100000]

        def sim_lock(fd, operation, *a):
            """fcntl.flock / fcntl.lockf on a simulated file: granted, unless the fault plan says another holder has it
            (EAGAIN for a non-blocking request; a blocking request on a held lock would wait for ever, which the plan
            reports as EDEADLK the way lockf does)."""
            f = fd if isinstance(fd, SimFile) else fs.fds.get(fd if isinstance(fd, int) else -1)
            if f is None and hasattr(fd, "fileno") and not isinstance(fd, int):
                try:
                    f = fs.fds.get(fd.fileno())
                except Exception:  # noqa: BLE001
                    f = None
            if f is None:
                return real_lock[sim_lock_name[0]](fd, operation, *a)
            fs.events.append(("lock", f.path))
            fs._op("lock", f.path)
            return None

        try:
            import fcntl as _fcntl
            real_lock = {"flock": _fcntl.flock, "lockf": _fcntl.lockf}
            sim_lock_name = ["flock"]

            def sim_flock(fd, operation):
                sim_lock_name[0] = "flock"
                return sim_lock(fd, operation)

            def sim_lockf(fd, operation, *a):
                sim_lock_name[0] = "lockf"
                return sim_lock(fd, operation, *a)
            patcher.set(_fcntl, "flock", sim_flock)
            patcher.set(_fcntl, "lockf", sim_lockf)
        except ImportError:
            pass

        def sim_open(path, flags, mode=0o777, *a, **kw):
            try:
                p = fs._norm(_os.fspath(path))
            except TypeError:
                return real["open"](path, flags, mode, *a, **kw)
            if isinstance(p, bytes):
                p = p.decode("utf-8", "surrogateescape")
            if not (p in fs.files or p.split("/", 1)[0] in getattr(fs, "roots", ()) or fs._simulated(p)):
                return real["open"](path, flags, mode, *a, **kw)
            acc = flags & (_os.O_WRONLY | _os.O_RDWR)
            exists = p in fs.files
            if flags & _os.O_CREAT and flags & _os.O_EXCL and exists:
                raise FileExistsError(errno.EEXIST, os.strerror(errno.EEXIST), p)
            if not exists and not flags & _os.O_CREAT:
                raise oserror("ENOENT", p)
            if acc:
                m = "r+b" if exists else "w+b"
                if flags & _os.O_TRUNC:
                    m = "w+b"
                f = fs.open(p, m, 0)
                if not exists and m == "r+b":
                    pass
                if flags & _os.O_APPEND:
                    f.seek(0, 2)
                if acc == _os.O_WRONLY:
                    f.can_read = False
                if not exists:
                    f.dirty = True
            else:
                f = fs.open(p, "rb", 0)
            counter[0] += 1
            fs.fds[counter[0]] = f
            return counter[0]

        def sim_fdopen(fd, mode="r", *a, **kw):
            f = fs.fds.get(fd)
            if f is None:
                return real["fdopen"](fd, mode, *a, **kw)
            f.binary = "b" in mode
            buffering = a[0] if a else kw.get("buffering", -1)
            f.raw = buffering == 0
            if "a" in mode:
                f.seek(0, 2)
            fs.fds.pop(fd, None)
            return f

        def sim_write(fd, data):
            f = fs.fds.get(fd)
            if f is None:
                return real["write"](fd, data)
            was = f.raw
            f.raw = True
            try:
                return f.write(bytes(data))
            finally:
                f.raw = was

        def sim_read(fd, n):
            f = fs.fds.get(fd)
            return real["read"](fd, n) if f is None else f.read(n)

        def sim_close(fd):
            f = fs.fds.pop(fd, None)
            return real["close"](fd) if f is None else f.close()

        def sim_fsync(fd):
            f = fs.fds.get(fd)
            if f is None:
                return real["fsync"](fd)
            fs.files[f.path] = bytes(f.content)
            fs.events.append(("fsync", f.path))

        def sim_ftruncate(fd, n):
            f = fs.fds.get(fd)
            return real["ftruncate"](fd, n) if f is None else f.truncate(n)

        def sim_fstat(fd):
            f = fs.fds.get(fd)
            if f is None:
                return real["fstat"](fd)
            import stat as _stat
            m = fs.mtime.get(f.path, fs.now)
            ns = int(round(m * 1e9))
            size = len(f.content) if f.writing else len(fs.files.get(f.path, b""))
            return _os.stat_result((_stat.S_IFREG | 0o644, (__import__('zlib').crc32(f.path.encode('utf-8', 'surrogateescape')) & 0xFFFFFF), 1, 1, 0, 0, size, int(m), int(m), int(m), m, m, m, ns, ns, ns))

        def sim_lseek(fd, off, whence):
            f = fs.fds.get(fd)
            return real["lseek"](fd, off, whence) if f is None else f.seek(off, whence)

        for n, fn in (("open", sim_open), ("fdopen", sim_fdopen), ("write", sim_write), ("read", sim_read), ("close", sim_close),
                      ("fsync", sim_fsync), ("ftruncate", sim_ftruncate), ("lseek", sim_lseek), ("fstat", sim_fstat)):
            patcher.set(_os, n, fn)

    def install_rename(self, patcher):
        """os.rename / os.replace / os.remove / os.unlink for simulated files (shutil.move builds on them); a real
        temporary file renamed onto a simulated name is taken in."""
        import os as _os
        fs = self
        real = {n: getattr(_os, n) for n in ("rename", "replace", "remove", "unlink")}

        def _mv(name):
            def mv(src, dst, *a, **kw):
                s, d = fs._norm(_os.fspath(src)), fs._norm(_os.fspath(dst))
                if s in fs.files:
                    fs._op("rename", s)
                    fs.events.append(("rename", s, d))
                    fs.files[d] = fs.files.pop(s)
                    fs.now += fs.tick
                    fs.mtime[d] = fs.mtime.pop(s, fs.now)
                    return None
                if fs._simulated(d) and _os.path.lexists(src):
                    with open(src, "rb") as f:
                        data = f.read()
                    real["unlink"](src)
                    fs._op("rename", d)
                    fs.events.append(("rename", s, d))
                    fs.files[d] = data
                    fs.now += fs.tick
                    fs.mtime[d] = fs.now
                    return None
                return real[name](src, dst, *a, **kw)
            return mv

        def _rm(name):
            def rm(p, *a, **kw):
                q = fs._norm(_os.fspath(p))
                if q in fs.files:
                    fs._op("remove", q)
                    fs.events.append(("remove", q))
                    del fs.files[q]
                    fs.mtime.pop(q, None)
                    return None
                return real[name](p, *a, **kw)
            return rm

        patcher.set(_os, "rename", _mv("rename"))
        patcher.set(_os, "replace", _mv("replace"))
        patcher.set(_os, "remove", _rm("remove"))
        patcher.set(_os, "unlink", _rm("unlink"))

    # --- harness-side helpers (no fault plan) -----------------------------------------------
    def put(self, path, data):
        self.files[path] = bytes(data)
        self.now += self.tick
        self.mtime[path] = self.now

    # --- stat seam: code that asks the OS about a simulated file gets simulated answers ---------------
    def install_stat(self, patcher):
        """Route os.stat / os.path.{exists,isfile,getsize,getmtime} through the simulated file system for simulated
        paths (anything else falls through to the real OS).  A cache keyed on stat() results is a realistic change
        to file-handling code; without this seam it would escape to the real disk."""
        import os as _os
        import stat as _stat
        fs = self
        real_stat = _os.stat

        def sim_stat(path, *a, **kw):
            try:
                p = _os.fspath(path)
            except TypeError:
                return real_stat(path, *a, **kw)
            if isinstance(p, bytes):
                p = p.decode("utf-8", "surrogateescape")
            rel = p
            cwd = _os.getcwd()
            if p.startswith(cwd + _os.sep):
                rel = p[len(cwd) + 1:]
            if rel in fs.files:
                m = fs.mtime.get(rel, fs.now)
                ns = int(round(m * 1e9))
                return _os.stat_result((_stat.S_IFREG | 0o644, (__import__('zlib').crc32(rel.encode('utf-8', 'surrogateescape')) & 0xFFFFFF), 1, 1, 0, 0, len(fs.files[rel]), int(m), int(m), int(m),
                                        m, m, m, ns, ns, ns))
            if rel in fs.dirs:
                return _os.stat_result((_stat.S_IFDIR | 0o755, 1, 1, 1, 0, 0, 0, 0, 0, 0))
            return real_stat(path, *a, **kw)

        patcher.set(_os, "stat", sim_stat)
        import genericpath
        for mod in (genericpath, _os.path):
            patcher.set(mod, "exists", lambda p, _s=sim_stat: _try(_s, p) is not None)
            patcher.set(mod, "isfile", lambda p, _s=sim_stat: (lambda r: r is not None and _stat.S_ISREG(r.st_mode))(_try(_s, p)))
            patcher.set(mod, "getsize", lambda p, _s=sim_stat: _s(p).st_size)
            patcher.set(mod, "getmtime", lambda p, _s=sim_stat: _s(p).st_mtime)

    def get(self, path):
        return self.files.get(path)

    def crash_outcomes(self, path):
        """Contents a crash during an un-closed truncating write may leave (old, empty, prefixes)."""
        outs = []
        old = self.pre_open.get(path)
        outs.append(old)
        cur = self.volatile.get(path, b"")
        outs.append(b"")
        outs.append(cur)
        return outs


def _try(f, p):
    try:
        return f(p)
    except (OSError, ValueError, TypeError):
        return None


# ---------------------------------------------------------------------------------- clock


class SimClockState:
    def __init__(self, epoch=1600000000.0, utc_offset_h=0):
        self.now = float(epoch)
        self.reads = 0
        self.hook = None        # called with read index before each read; may move the clock
        self.utc_offset_h = utc_offset_h
        self.local_reads = 0


def make_clock_class(state):
    base = _dt.datetime

    class SimDateTime(base):
        @classmethod
        def utcnow(cls):
            state.reads += 1
            if state.hook:
                state.hook(state.reads)
            t = base(1970, 1, 1) + _dt.timedelta(seconds=state.now)
            return cls(t.year, t.month, t.day, t.hour, t.minute, t.second, t.microsecond)

        @classmethod
        def now(cls, tz=None):
            state.reads += 1
            if state.hook:
                state.hook(state.reads)
            if tz is not None:
                # an aware "now" in a given zone is a correct way to read UTC; not a local-time read
                t = base(1970, 1, 1, tzinfo=_dt.timezone.utc) + _dt.timedelta(seconds=state.now)
                return t.astimezone(tz)
            state.local_reads += 1
            t = base(1970, 1, 1) + _dt.timedelta(seconds=state.now + 3600 * state.utc_offset_h)
            return cls(t.year, t.month, t.day, t.hour, t.minute, t.second, t.microsecond)

        @classmethod
        def today(cls):
            return cls.now()

    class SimDate(_dt.date):
        @classmethod
        def today(cls):
            t = SimDateTime.now()
            return cls(t.year, t.month, t.day)

    SimDate.__name__ = "date"
    SimDateTime.__name__ = "datetime"
    # usable both as the class (`from datetime import datetime`) and as the module (`import datetime`)
    SimDateTime.datetime = SimDateTime
    SimDateTime.timedelta = _dt.timedelta
    SimDateTime.timezone = _dt.timezone
    SimDateTime.date = SimDate
    SimDateTime.UTC = _dt.timezone.utc
    return SimDateTime


class SimTimeModule:
    """Stands in for the `time` module inside the library's namespaces: every clock answers simulated time."""

    def __init__(self, state):
        self._s = state
        import time as _t
        self._t = _t

    def time(self):
        self._s.reads += 1
        return self._s.now

    def time_ns(self):
        self._s.reads += 1
        return int(self._s.now * 1e9)

    def monotonic(self):
        return self._s.now

    def perf_counter(self):
        return self._s.now

    def monotonic_ns(self):
        return int(self._s.now * 1e9)

    def perf_counter_ns(self):
        return int(self._s.now * 1e9)

    def process_time(self):
        return self._s.now % 1000.0

    def ctime(self, secs=None):
        return self._t.asctime(self.gmtime(secs))

    def asctime(self, t=None):
        return self._t.asctime(self.gmtime() if t is None else t)

    def sleep(self, s):
        self._s.now += max(0.0, float(s))

    def gmtime(self, secs=None):
        return self._t.gmtime(self._s.now if secs is None else secs)

    def localtime(self, secs=None):
        return self._t.gmtime((self._s.now if secs is None else secs) + 3600 * self._s.utc_offset_h)

    def strftime(self, fmt, t=None):
        return self._t.strftime(fmt, self.gmtime() if t is None else t)

    def __getattr__(self, name):
        return getattr(self._t, name)


def install_clock(patcher, lib, state):
    """The only clocks code inside the library can read are simulated: `datetime` (class) / `time` (module) names in
    every library module are bound to the simulated versions, whether or not the module uses them today."""
    cls = make_clock_class(state)
    tm = SimTimeModule(state)
    import time as _time
    for mod in lib.modules:
        patcher.set(mod, "datetime", cls)
        patcher.set(mod, "time", tm)
        # clocks imported under other names (`import datetime as dt`, `from time import monotonic as _now`, `from datetime import date`)
        for name, val in list(vars(mod).items()):
            if name in ("datetime", "time") or name.startswith("__"):
                continue
            if val is _time:
                patcher.set(mod, name, tm)
            elif val is _dt or val is _dt.datetime:
                patcher.set(mod, name, cls)
            elif val is _dt.date:
                patcher.set(mod, name, cls.date)
            elif callable(val) and getattr(val, "__module__", None) == "time" and getattr(_time, getattr(val, "__name__", ""), None) is val \
                    and val.__name__ in ("time", "time_ns", "monotonic", "monotonic_ns", "perf_counter", "perf_counter_ns", "process_time",
                                         "sleep", "gmtime", "localtime", "strftime", "ctime", "asctime"):
                patcher.set(mod, name, getattr(tm, val.__name__))
    return cls


# ---------------------------------------------------------------------------------- tracer tools


def _json_codes():
    import json
    import json.encoder as je
    out = set()
    for f in (json.dumps, json.dump, je.JSONEncoder.encode, je.JSONEncoder.iterencode):
        out.add(f.__code__)
    return out


_JSON_ENCODE_CODES = _json_codes()


class LineTracer:
    """sys.settrace-based tools restricted to frames of the library.

    mode 'count' : count line events (and record (file, line, func) per event)
    mode 'inject': raise `exc` at the k-th line event
    Also records call/return events of selected function names into `events`.
    """

    def __init__(self, libdir, watch=(), events=None):
        self.libdir = libdir
        self.watch = set(watch)
        self.events = events if events is not None else []
        self.n = 0
        self.points = []
        self.inject_at = None
        self.inject_exc = None
        self.fired = False
        self._cache = {}
        self.stop_counting = None   # callable -> True when output phase began

    def _inlib(self, code):
        r = self._cache.get(code)
        if r is None:
            r = os.path.realpath(code.co_filename).startswith(self.libdir)
            self._cache[code] = r
        return r

    def _global(self, frame, event, arg):
        if event != "call":
            return None
        code = frame.f_code
        if code in _JSON_ENCODE_CODES:
            # serialisation is observed at the standard library's encoder, not by the names the library gives its helpers
            self.events.append(("call", "json-encode"))
            return self._json_local
        if not self._inlib(code):
            return None
        if code.co_name in self.watch:
            self.events.append(("call", code.co_name))
        return self._local

    def _json_local(self, frame, event, arg):
        if event == "return":
            self.events.append(("return", "json-encode"))
        return self._json_local

    def _local(self, frame, event, arg):
        if event == "line":
            self.n += 1
            if self.inject_at is None:
                self.points.append((os.path.basename(frame.f_code.co_filename), frame.f_lineno,
                                    frame.f_code.co_name, len(self.events)))
            elif self.n == self.inject_at and not self.fired:
                self.fired = True
                sys.settrace(None)
                raise self.inject_exc
        elif event == "return":
            if frame.f_code.co_name in self.watch:
                self.events.append(("return", frame.f_code.co_name))
        return self._local

    def __enter__(self):
        sys.settrace(self._global)
        return self

    def __exit__(self, *a):
        sys.settrace(None)
        return False
