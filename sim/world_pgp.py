"""W1 / pgp profile (C10): the envelope world in OpenPGP mode with the **real GnuPG binary as a peer**.

Signers: SimGPG (headers of arbitrary length, including ones no real OpenPGP implementation would emit)
and real `gpg` (scratch GNUPGHOME per worker, the repository's shipped test keys plus four committed test
keys, `--faked-system-time` = simulated clock) reached through the library's own GPG signing path
(sign_root_metadata_dict_via_gpg / sign_root_metadata_via_gpg -> stub gpg_funcs -> gpg --detach-sign ->
packet parser).  Channel faults as in the envelope world plus exhaustive single-bit sweeps over signature,
headers, key and payload bytes against verify_gpg_signature.  Oracle: reference digest + ledger,
tie-broken by the independent RFC 8032 verifier ("exactly when").
"""
import copy
import hashlib

import gen
import pgp
import rfc8032
from core import register, HarnessError
from refmodel import pgp_digest, payload_hash, refcanon, ref_is_hex, ref_is_hex_key, ref_is_pgp_entry
from seams import REPO, SimFS, exc_family, exc_site
from world_envelope import EnvelopeWorld


class RealGpgFuncs:
    """gpg_funcs seam backed by the real binary; records what GnuPG signed in the ledger."""

    def __init__(self, world, backend):
        self.w, self.b = world, backend
        self.last_content_hash = None
        self.fail = None
        self.calls = []

    def create_signature(self, content, keyid=None, homedir=None):
        self.calls.append("create_signature")
        self.b.time = 1700000000 + int(self.w.clock) % 10**8     # GnuPG's clock = simulated clock (kept after key creation)
        sig = self.b.create_signature(content, keyid)
        q = next(k["q"] for k in self.b.keys if k["fpr"] == keyid.lower())
        self.last_content_hash = hashlib.sha256(bytes(content)).hexdigest()
        # GnuPG is a peer, not trusted blindly: its signature is checked with the independent verifier
        ok = rfc8032.verify(bytes.fromhex(q), pgp_digest(bytes(content), bytes.fromhex(sig["other_headers"])), bytes.fromhex(sig["signature"]))
        if not ok:
            raise HarnessError("real gpg produced a signature the independent verifier rejects")
        self.w.ledger.record_pgp(q, self.last_content_hash, sig["other_headers"], sig["signature"])
        self.w.run.probe("real_gpg_signature")
        return sig

    def export_pubkey(self, keyid, homedir=None):
        self.calls.append("export_pubkey")
        return self.b.export_pubkey(keyid)


@register
class PgpWorld(EnvelopeWorld):
    name = "pgp"

    @classmethod
    def header(cls, rng, tier, prop):
        h = EnvelopeWorld.header.__func__(cls, rng, tier, "C10")
        h["gpg_bias"] = 1.0
        h["real_gpg"] = rng.random() < 0.6
        h["n_ops"] = rng.randint(8, 30)
        return h

    def __init__(self, run, header):
        super().__init__(run, header)
        self.real = None
        self.n_sim = len(self.keys)
        self.fs = SimFS(run)
        self.fs.install_open(self.patch, self.lib)
        self.fs.install_stat(self.patch)
        self.fs.install_rename(self.patch)
        self.fs.install_fd(self.patch)
        if header.get("real_gpg"):
            b = pgp.RealGpg.get(REPO)
            if b.ok:
                self.real = RealGpgFuncs(self, b)
                for k in b.keys:
                    self.keys.pub.append(k["q"])
                    self.keys.fpr.append(k["fpr"])
                    self.keys.seeds.append(None)
                    self.keys.priv.append(None)
                run.probe("real_gpg_leg_ran")
            else:
                run.probe("real_gpg_leg_skipped")
                run.ev("gpg-skipped", b.reason)

    def _is_real(self, i):
        return i >= self.n_sim

    def op_sign(self, op):
        i = op["key"]
        if i < len(self.keys) and self._is_real(i):
            return self._real_sign(op)
        if op.get("impl") == "lib-raw":
            op = dict(op, impl="simgpg")
        return super().op_sign(op)

    def _real_sign(self, op):
        e, i = op["env"], op["key"]
        if e >= len(self.envs) or self.real is None:
            return self.run.ev("noop")
        E = self.envs[e]
        q = self.keys.pub[i]
        rs = self.lib.root_signing
        saved = rs.gpg_funcs
        rs.gpg_funcs = self.real
        others = {k: refcanon(v) if isinstance(v, (dict, list, str, int, float, type(None), bool)) else None
                  for k, v in E["signatures"].items() if k != q}
        try:
            self.clock += 1
            if op.get("via") == "file":
                path = "ceremony/doc.json"
                self.fs.put(path, refcanon(E))
                o = self.calls.raw("sign_root_metadata_via_gpg", path, self.keys.fpr[i])
                if o.ok:
                    import json
                    new = json.loads(self.fs.get(path))
                    if refcanon(new["signed"]) != refcanon(E["signed"]) or self.fs.get(path) != refcanon(new):
                        self.run.violate(("C10", "C08"), "gpg-file-changed-payload", "GPG file signing changed the payload or wrote a non-canonical file")
                        return
                    E["signatures"] = new["signatures"]
            else:
                o = self.calls.raw("sign_root_metadata_dict_via_gpg", E, self.keys.fpr[i])
        finally:
            rs.gpg_funcs = saved
        if not o.ok:
            if isinstance(o.exc, HarnessError):
                raise o.exc
            self.run.violate(("C10", "C02"), "gpg-sign-failed", "GPG signing path raised %r with a usable GnuPG key" % (o,), "gpg-sign-failed:" + o.cls)
            return
        ent = E["signatures"].get(q)
        if self.real.last_content_hash != payload_hash(E["signed"]):
            self.run.violate(("C10", "C07"), "gpg-signed-wrong-bytes", "the bytes handed to GnuPG are not the reference canonical bytes of the payload")
            return
        if not ref_is_pgp_entry(ent) or set(ent) != {"other_headers", "signature"}:
            self.run.violate(("C10",), "gpg-entry", "GnuPG signature was not transcribed into a well-formed entry filed under the raw public value q",
                             "gpg-entry")
            return
        now_others = {k: refcanon(v) if isinstance(v, (dict, list, str, int, float, type(None), bool)) else None
                      for k, v in E["signatures"].items() if k != q}
        if now_others != others:
            self.run.violate(("C10", "C09"), "sign-touched-others", "GPG signing changed another entry")
            return
        self.run.probe("sign_real-gpg")
        o = self.calls.call("verify_signable", E, [q], 1, gpg=True)
        self._judge(E, [q], 1, True, o, ctx="after-real-gpg-sign")

    def _sign_entry(self, i, payload, impl, hdr_hex=None, see_also=False):
        if self._is_real(i) and self.real is not None:
            data = refcanon(payload)
            sig = self.real.create_signature(data, self.keys.fpr[i])
            return {"other_headers": sig["other_headers"], "signature": sig["signature"]}, True
        if impl in ("lib-raw", "indep-raw"):
            impl = "simgpg"
        return super()._sign_entry(i, payload, impl, hdr_hex, see_also)

    def op_resign(self, op):
        return self.run.ev("noop")

    def op_order_check(self, op):
        return self.run.ev("noop")

    def op_vgs(self, op):
        """Direct call of the single-signature primitive, 'exactly when' oracle."""
        e, i = op["env"], op["key"]
        if e >= len(self.envs) or i >= len(self.keys):
            return self.run.ev("noop")
        E = self.envs[e]
        ent = E["signatures"].get(self.keys.pub[i])
        if ent is None:
            return self.run.ev("noop")
        ent = copy.deepcopy(ent)
        if op.get("tweak"):
            from world_envelope import _tweak_entry
            ent = _tweak_entry(ent, op["tweak"])
            if ent is None:
                return self.run.ev("noop")
        key = self.keys.pub[op.get("under", i)] if op.get("under", i) < len(self.keys) else self.keys.pub[i]
        data = refcanon(E["signed"])
        o = self.calls.call("verify_gpg_signature", ent, key, data)
        valid = self.ledger.entry_valid(key, payload_hash(E["signed"]), ent, True)
        self.run.probe("vgs_valid" if valid else "vgs_invalid")
        if o.ok != valid:
            ind = ref_is_pgp_entry(ent) and rfc8032.verify(bytes.fromhex(key), pgp_digest(data, bytes.fromhex(ent["other_headers"])),
                                                           bytes.fromhex(ent["signature"]))
            if ind != valid:
                raise HarnessError("ledger %r vs independent %r" % (valid, ind))
            self.run.violate(("C10",), "gpg-primitive-wrong", "verify_gpg_signature %s although the entry is %s (%r)"
                             % ("returned" if o.ok else "raised " + o.cls, "valid" if valid else "invalid", op.get("tweak")),
                             "gpg-primitive-wrong:" + ("accept" if o.ok else o.cls))

    def op_bit_sweep(self, op):
        """Exhaustive single-bit neighbourhood of one valid entry: every bit of signature, headers, key and (a window
        of) the payload bytes - each flip must make verify_gpg_signature reject."""
        e, i = op["env"], op["key"]
        if e >= len(self.envs) or i >= len(self.keys):
            return self.run.ev("noop")
        E = self.envs[e]
        key = self.keys.pub[i]
        ent = E["signatures"].get(key)
        data = refcanon(E["signed"])
        if not ref_is_pgp_entry(ent) or not self.ledger.entry_valid(key, payload_hash(E["signed"]), ent, True):
            return self.run.ev("noop")
        f = self.lib.authentication.verify_gpg_signature
        lib = self.lib
        n = 0

        def must_reject(entry, k, d, what):
            nonlocal n
            n += 1
            try:
                with self.calls.out:
                    f(entry, k, d)
            except Exception as ex:  # noqa: BLE001
                if not exc_family(lib, "verify_gpg_signature", ex):
                    self.run.violate(("C13", "C10"), "error-family", "verify_gpg_signature raised %s at %s" % (type(ex).__name__, exc_site(lib, ex)),
                                     "verify_gpg_signature:%s@%s" % (type(ex).__name__, exc_site(lib, ex)))
                    return False
                return True
            self.run.violate(("C10", "C01"), "bitflip-accepted", "verify_gpg_signature accepted after a single-bit change in the %s" % what,
                             "bitflip-accepted:" + what.split()[0])
            return False

        sig = bytes.fromhex(ent["signature"])
        hdr = bytes.fromhex(ent["other_headers"])
        kb = bytes.fromhex(key)
        for name, buf in (("signature", sig), ("headers", hdr[:64])):
            for bit in range(len(buf) * 8):
                b = bytearray(buf)
                b[bit // 8] ^= 1 << (bit % 8)
                full = bytes(b) + (hdr[64:] if name == "headers" else b"")
                e2 = dict(ent)
                e2["signature" if name == "signature" else "other_headers"] = full.hex()
                if not must_reject(e2, key, data, "%s (bit %d)" % (name, bit)):
                    return
        for bit in range(256):
            b = bytearray(kb)
            b[bit // 8] ^= 1 << (bit % 8)
            if not must_reject(ent, bytes(b).hex(), data, "key (bit %d)" % bit):
                return
        win = min(len(data), 96)
        start = op.get("off", 0) % max(1, len(data) - win + 1)
        for bit in range(win * 8):
            b = bytearray(data)
            b[start + bit // 8] ^= 1 << (bit % 8)
            if not must_reject(ent, key, bytes(b), "payload bytes (bit %d)" % (start * 8 + bit)):
                return
        # structural: truncation / extension / header-length games
        for tw in (hdr[:-1], hdr + b"\x00", hdr[1:], hdr + b"\x04\xff" + len(hdr).to_bytes(4, "big")):
            if tw:
                if not must_reject(dict(ent, other_headers=tw.hex()), key, data, "headers (structural)"):
                    return
        if not must_reject(ent, key, data + b" ", "payload (extended)") or not must_reject(ent, key, data[:-1], "payload (truncated)"):
            return
        # the same buffer object, changed in place between calls (a caller streaming documents through one bytearray)
        buf = bytearray(data)
        for rnd in range(3):
            o1 = self.calls.raw("verify_gpg_signature", ent, key, buf)
            if not o1.ok:
                self.run.violate(("C10", "C02"), "gpg-primitive-wrong", "verify_gpg_signature raised %s on a valid entry over a bytearray payload" % o1.cls,
                                 "gpg-primitive-wrong:" + o1.cls)
                return
            pos = (op.get("off", 0) + 7 * rnd) % len(buf)
            buf[pos] ^= 0x01
            if not must_reject(ent, key, buf, "payload buffer changed in place"):
                return
            buf[pos] ^= 0x01
        self.run.probe("inplace_buffer_reuse")
        self.run.libcalls += n
        self.run.rejects += n
        self.run.probe("bit_sweep_flips", n)
        self.run.fault("single_bit_flip", n)
        # and the untouched entry is (still) accepted
        o = self.calls.call("verify_gpg_signature", ent, key, data)
        if not o.ok:
            self.run.violate(("C10", "C02"), "gpg-primitive-wrong", "verify_gpg_signature raised %s on a valid entry" % o.cls,
                             "gpg-primitive-wrong:" + o.cls)

    def gen(self, rng):
        nk = len(self.keys)
        if self.envs and rng.random() < 0.30:
            e = rng.randrange(len(self.envs))
            signed = [i for i in range(nk) if self.keys.pub[i] in self.envs[e]["signatures"]]
            r = rng.random()
            if self.real is not None and r < 0.45:
                return {"op": "sign", "env": e, "key": rng.randrange(self.n_sim, nk), "impl": "real-gpg",
                        "via": rng.choice(["dict", "dict", "file"]), "dt": rng.choice([1, 60, 86400])}
            if signed and r < 0.6:
                return {"op": "bit_sweep", "env": e, "key": rng.choice(signed), "off": rng.getrandbits(16)}
            if signed:
                i = rng.choice(signed)
                hx = lambda n: "".join(rng.choice("0123456789abcdef") for _ in range(n))  # noqa: E731
                tw = rng.choice([None, None, ["flip", "signature", rng.randrange(128), rng.choice("0123456789abcdef")],
                                 ["flip", "other_headers", rng.randrange(200), rng.choice("0123456789abcdef")], ["swap_rs"],
                                 ["hdr_trailer"], ["hdr_shift", rng.randint(1, 4)], ["see_also", hx(40)], ["ext", "other_headers", hx(2)],
                                 ["trunc", "other_headers", 2], ["to_raw"], ["upper", "signature"]])
                op = {"op": "vgs", "env": e, "key": i, "tweak": tw}
                if rng.random() < 0.2:
                    op["under"] = rng.randrange(nk)
                return op
        op = super().gen(rng)
        if op and op.get("op") == "sign" and op.get("impl") in ("lib-raw", "indep-raw"):
            op["impl"] = "simgpg"
        return op
