"""W1 / envelope profile: several signers (mixed implementations), a Byzantine channel between the
signers and the verifier, and a verifier that is always the library.  Ground truth is the ledger of
signing events that really happened in the run.

Decides (as target): C01 soundness, C02 completeness, C06(a) strip-monotonicity, C09 sign/verify
round trip, C10 OpenPGP digest (SimGPG leg).  Monitors C12 (argument immutability) and C13 (error
families) on every call.
"""
import copy
import json

import gen
import rfc8032
from core import World, register, Hbytes, HarnessError, jdump
from refmodel import (Ledger, counted_keys, independent_entry_valid, keylist_ok, payload_hash,
                      pgp_digest, refcanon, ref_is_hex_key, ref_is_pgp_entry, ref_is_raw_entry,
                      snapshot, threshold_ok, typed_eq)
from seams import LibCalls, Patcher, SimClockState, install_clock, load_library

ENCODINGS = ["utf-8", "utf-8", "ascii", "latin-1", "cp1252", "utf-16", "shift_jis"]
IMPLS_RAW = ["lib-raw", "lib-raw", "lib-raw", "indep-raw"]
IMPLS_PGP = ["simgpg", "simgpg", "lib-gpg", "lib-gpg", "indep-pgp"]


class KeyRing:
    def __init__(self, lib, seeds_hex):
        self.lib = lib
        self.seeds = [bytes.fromhex(s) for s in seeds_hex]
        self.priv = [lib.common.PrivateKey.from_bytes(s) for s in self.seeds]
        self.pub = [lib.common.PublicKey.to_hex(p.public_key()) for p in self.priv]
        self.fpr = [Hbytes("fpr", s.hex())[:20].hex() for s in self.seeds]

    def __len__(self):
        return len(self.seeds)

    def by_fpr(self, f):
        return self.fpr.index(f)


class GpgStub:
    """Stands in for securesystemslib.gpg.functions (not installed).  SimGPG back end: builds the
    hashed part of an RFC 4880 v4 signature packet and signs the v4 digest with the key's seed."""

    def __init__(self, world):
        self.w = world
        self.fail = None       # None | "create" | "export"
        self.calls = []
        self.last_content_hash = None

    def headers_for(self, fpr, t):
        sub = bytes([0x16, 0x21, 0x04]) + bytes.fromhex(fpr) + bytes([0x05, 0x02]) + int(t).to_bytes(4, "big")
        return bytes([0x04, 0x00, 0x16, 0x08]) + len(sub).to_bytes(2, "big") + sub

    def create_signature(self, content, keyid=None, homedir=None):
        self.calls.append("create_signature")
        fs = getattr(self.w, "fs", None)
        if fs is not None:
            fs.events.append(("call", "gpg-create-signature"))
        if self.fail == "create":
            raise ValueError("gpg: signing failed: No secret key (injected)")
        w = self.w
        i = w.keys.by_fpr(keyid)
        hdr = self.headers_for(keyid, int(w.clock) % 2**32)
        dig = pgp_digest(bytes(content), hdr)
        sig = w.keys.priv[i].sign(dig)
        self.last_content_hash = __import__("hashlib").sha256(bytes(content)).hexdigest()
        w.ledger.record_pgp(w.keys.pub[i], self.last_content_hash, hdr.hex(), sig.hex())
        self.last_sig = (hdr.hex(), sig.hex())
        return {"keyid": keyid, "other_headers": hdr.hex(), "signature": sig.hex()}

    def export_pubkey(self, keyid, homedir=None):
        self.calls.append("export_pubkey")
        fs = getattr(self.w, "fs", None)
        if fs is not None:
            fs.events.append(("call", "gpg-export-pubkey"))
        if self.fail == "export":
            raise KeyError("gpg: key not found (injected)")
        i = self.w.keys.by_fpr(keyid)
        return {"type": "eddsa", "method": "pgp+eddsa-ed25519", "keyid": keyid,
                "keyval": {"private": "", "public": {"q": self.w.keys.pub[i]}}}


def _tweak_entry(entry, tw):
    """Apply a concrete tweak to a (copied) signature entry.  Returns the new entry or None."""
    e = copy.deepcopy(entry)
    kind = tw[0]
    try:
        if kind == "flip":            # ["flip", field, pos, newchar]
            s = e[tw[1]]
            pos = tw[2] % len(s)
            e[tw[1]] = s[:pos] + tw[3] + s[pos + 1:]
        elif kind == "trunc":         # ["trunc", field, n]
            e[tw[1]] = e[tw[1]][:max(0, len(e[tw[1]]) - tw[2])]
        elif kind == "ext":           # ["ext", field, hex]
            e[tw[1]] = e[tw[1]] + tw[2]
        elif kind == "swap_rs":
            s = e["signature"]
            e["signature"] = s[64:] + s[:64]
        elif kind == "see_also":      # ["see_also", hex or None]
            if tw[1] is None:
                e.pop("see_also", None)
            else:
                e["see_also"] = tw[1]
        elif kind == "to_raw":        # keep only the signature field
            e = {"signature": e["signature"]}
        elif kind == "add_hdr":       # raw entry dressed as OpenPGP entry
            e = {"signature": e["signature"], "other_headers": tw[1]}
        elif kind == "hdr_shift":     # move the boundary inside other_headers
            h = e["other_headers"]
            j = (2 * tw[1]) % max(2, len(h))
            e["other_headers"] = h[j:] if len(h[j:]) else h
        elif kind == "hdr_trailer":   # append a fake trailer
            h = e["other_headers"]
            e["other_headers"] = h + "04ff" + "%08x" % (len(h) // 2)
        elif kind == "upper":
            e[tw[1]] = e[tw[1]].upper()
        elif kind == "respell":       # ["respell", field, how]: a lenient reader would see the same bytes
            new = gen.respell(e[tw[1]], tw[2])
            if new == e[tw[1]]:
                return None
            e[tw[1]] = new
        elif kind == "extra":
            e[tw[1]] = tw[2]
        else:
            return None
    except (KeyError, TypeError, IndexError, AttributeError, ZeroDivisionError):
        return None
    return e


@register
class EnvelopeWorld(World):
    name = "envelope"

    # ------------------------------------------------------------------ configuration (swarm)
    @classmethod
    def header(cls, rng, tier, prop):
        n_keys = rng.choice([1, 2, 2, 3, 3, 4, 5, 6, 8, 8, 12, 16])
        rate = rng.choice(["none", "low", "low", "medium", "medium"])
        gpg_bias = rng.choice([0.0, 0.3, 0.5, 1.0]) if prop != "C10" else rng.choice([0.7, 1.0])
        h = {
            "n_ops": rng.randint(10, 45),
            "n_keys": n_keys,
            "key_seeds": [Hbytes("key", rng.getrandbits(64), i).hex() for i in range(n_keys)],
            "encoding": rng.choice(ENCODINGS),
            "fault_rate": rate,
            "gpg_bias": gpg_bias,
            "epoch": rng.choice([1583020800, 1709164800, 1735689599, 2147483640, 951782400,
                                 rng.randint(10**9, 4 * 10**9)]),
            "nonfinite": rng.random() < 0.5,
            "enabled": sorted(rng.sample(ATTACKS, rng.randint(3, len(ATTACKS)))),
            "indep_sample": 0.03 if tier == "quick" else 0.06,
            "werror": rng.random() < 0.2,
        }
        if rng.random() < 0.025:
            # a long-lived process: hundreds of calls (counters, caches filling up, the N-th call)
            h["n_ops"] = rng.choice([260, 300, 520, 1030])
            try:
                import seams as _seams
                _seams.load_library()
                hv = gen.harvested(50, 1500, around=False)
                if hv and rng.random() < 0.5:
                    h["n_ops"] = rng.choice(hv) + rng.choice([5, 20])
            except Exception:  # noqa: BLE001
                pass
            h["fault_rate"] = rng.choice(["none", "low"])
            h["long_lived"] = True
        if tier == "thorough" and rng.random() < 0.25:
            # deeper bounds in the thorough tier: longer histories, more signers
            h["n_ops"] = rng.randint(45, 140)
            if rng.random() < 0.3:
                extra = rng.choice([24, 40])
                h["key_seeds"] += [Hbytes("key+", rng.getrandbits(64), i).hex() for i in range(extra - len(h["key_seeds"]))]
                h["n_keys"] = len(h["key_seeds"])
        return h

    def __init__(self, run, header):
        super().__init__(run, header)
        self.lib = load_library()
        self.calls = LibCalls(run, self.lib, header.get("encoding", "utf-8"), werror=bool(header.get("werror")))
        self.keys = KeyRing(self.lib, header["key_seeds"])
        self.ledger = Ledger()
        self.envs = []          # envelopes (dicts)
        self.env_gpg = []       # intended mode per envelope
        self.stash = []         # signatures made over other payloads: (key index, entry, gpg)
        self.clock = float(header.get("epoch", 1.6e9))
        self.patch = Patcher()
        self.gpgstub = GpgStub(self)
        rs = self.lib.root_signing
        self.patch.set(rs, "SSLIB_AVAILABLE", True)
        self.patch.set(rs, "gpg_funcs", self.gpgstub)
        self.cstate = SimClockState(self.clock)
        self.cstate.hook = lambda n: setattr(self.cstate, "now", self.clock)
        install_clock(self.patch, self.lib, self.cstate)
        self.attacked = [set() for _ in range(0)]
        self.env_faults = []
        self.sample_ctr = 0
        self.libmade = set()      # (pub, signature hex) of entries produced by the library's own signer
        self.gpg_signed = []      # sha256 of the bytes the library handed to the GPG seam
        run.ev("cryptography-modules", [m for m in self.lib.crypto_modules_at_load
                                        if m.endswith(("backends", "hashes"))])
        # harness integrity: the key ring's public keys equal RFC 8032's for key 0
        if rfc8032.pub(self.keys.seeds[0]).hex() != self.keys.pub[0]:
            run.violate("C19", "pubkey-derivation", "library public key differs from RFC 8032")

    def close(self):
        self.patch.restore()

    # ------------------------------------------------------------------ helpers
    def _sampled(self, rate):
        """Deterministic sampling that does not draw from the PRNG."""
        self.sample_ctr += 1
        return (Hbytes(self.run.run_seed, "s", self.sample_ctr)[0] / 256.0) < rate

    def _sign_entry(self, i, payload, impl, hdr_hex=None, see_also=False):
        """Key i really signs `payload` with implementation `impl`; ledger updated.  Returns
        (entry, gpg) -- the entry is not filed anywhere."""
        data = refcanon(payload)
        ph = payload_hash(payload)
        seed, pub = self.keys.seeds[i], self.keys.pub[i]
        if impl in ("indep-raw",):
            sig = rfc8032.sign(seed, data).hex()
            self.ledger.record_raw(pub, ph, sig)
            return {"signature": sig}, False
        if impl == "otherhash":
            # a signature made over a digest other than SHA-256 (the header names the algorithm): never a valid signature
            # in this format, so nothing is recorded in the ledger
            import hashlib
            hdr = bytes.fromhex(hdr_hex)
            alg = OTHER_HASHES.get(hdr[3], "sha512")
            dig = hashlib.new(alg, data + hdr + b"\x04\xff" + len(hdr).to_bytes(4, "big")).digest()
            sig = rfc8032.sign(seed, dig).hex()
            self.run.fault("signature_over_other_digest")
            return {"other_headers": hdr.hex(), "signature": sig}, True
        if impl in ("simgpg", "indep-pgp"):
            hdr = bytes.fromhex(hdr_hex) if hdr_hex else self.gpgstub.headers_for(self.keys.fpr[i], int(self.clock) % 2**32)
            dig = pgp_digest(data, hdr)
            sig = (rfc8032.sign(seed, dig) if impl == "indep-pgp" else self.keys.priv[i].sign(dig)).hex()
            self.ledger.record_pgp(pub, ph, hdr.hex(), sig)
            e = {"other_headers": hdr.hex(), "signature": sig}
            if see_also:
                e["see_also"] = self.keys.fpr[i]
            return e, True
        raise HarnessError("unknown impl " + impl)

    def _resolve_under(self, u):
        kind = u[0]
        if kind == "seedhex":
            # the hex text of a signer's *private* seed used as a name in the signature map (a mix-up of the two 64-digit strings)
            return self.keys.seeds[u[1]].hex() if u[1] < len(self.keys) and self.keys.seeds[u[1]] is not None else None
        if kind == "key":
            return self.keys.pub[u[1]] if u[1] < len(self.keys) else None
        if kind == "spell":
            return gen.respell(self.keys.pub[u[1]], u[2]) if u[1] < len(self.keys) else None
        if kind == "lit":
            return u[1]
        return None

    def _resolve_src(self, s):
        kind = s[0]
        if kind == "env":
            if s[1] >= len(self.envs) or s[2] >= len(self.keys):
                return None
            return self.envs[s[1]]["signatures"].get(self.keys.pub[s[2]])
        if kind == "stash":
            return self.stash[s[1]][1] if s[1] < len(self.stash) else None
        if kind == "lit":
            return s[1]
        return None

    # ------------------------------------------------------------------ executor
    def apply(self, op):
        f = getattr(self, "op_" + op["op"], None)
        if f is None:
            raise HarnessError("unknown op %r" % (op,))
        self.clock += op.get("dt", 0)
        self.run.sim_time += op.get("dt", 0)
        f(op)

    def op_new_env(self, op):
        payload = op["payload"]
        if op.get("pad") and isinstance(payload, dict):
            # a large record (repodata-sized): the op carries only the size, the content is a fixed pattern
            payload = dict(payload)
            payload["packages"] = {"pkg-%06d" % i: {"sha256": "%064x" % (i * 0x9E3779B97F4A7C15 % 2**256), "size": i} for i in range(op["pad"] // 100)}
            self.run.probe("large_payload")
        src = copy.deepcopy(payload)
        if op.get("shared") and isinstance(src, dict):
            # the same list / dict object referenced from two places (a key list given to two roles, a template record reused):
            # no cycle, and as a JSON value simply two equal members
            inner = next((x for x in src.values() if isinstance(x, (dict, list))), None)
            if inner is None:
                inner = src["shared-a"] = ["x", {"y": 1}]
            src["shared-b"] = inner
            src["shared-c"] = [inner, inner]
            payload = copy.deepcopy(src)           # the reference value: equal members, nothing shared
            self.run.probe("payload_with_shared_subobjects")
        if op.get("tuples"):
            src = _tuplify(src, 0)          # tuples are a supported payload type of the library (serialized as arrays)
            self.run.probe("payload_with_tuples")
        elif op.get("subclass"):
            src = _subclassify(src, 0, op["subclass"])
            self.run.probe("payload_with_container_subclasses")
        o = self.calls.raw("wrap_as_signable", src)
        if not o.ok:
            self.run.violate(("C09",), "wrap-failed", "wrap_as_signable raised %r" % (o,))
            return
        E = o.value
        if not (type(E) is dict and set(E) == {"signatures", "signed"} and E["signatures"] == {}
                and typed_eq(E["signed"], payload) and refcanon(E["signed"]) == refcanon(payload)):
            self.run.violate(("C09",), "wrap-shape", "wrap_as_signable did not carry the payload unchanged")
        # aliasing: later changes to either side must not affect the other (C09 / C12)
        before = refcanon(E["signed"])
        if _mutate_deep(src):
            self.run.probe("wrap_alias_checked")
            if refcanon(E["signed"]) != before:
                self.run.violate(("C12", "C09"), "wrap-alias", "mutating the source payload changed the wrapped copy",
                                 "wrap-alias")
        src2 = copy.deepcopy(payload)
        o2 = self.calls.raw("wrap_as_signable", src2)
        if o2.ok and _mutate_deep(o2.value["signed"]):
            if refcanon(src2) != refcanon(payload):
                self.run.violate(("C12", "C09"), "wrap-alias", "mutating the wrapped copy changed the source payload",
                                 "wrap-alias")
        self.envs.append(E)
        self.env_gpg.append(bool(op.get("gpg")))
        self.env_faults.append(set())

    def op_sign(self, op):
        e, i = op["env"], op["key"]
        if e >= len(self.envs) or i >= len(self.keys):
            return self.run.ev("noop")
        E = self.envs[e]
        impl = op["impl"]
        pub = self.keys.pub[i]
        others = {k: jdump_safe(v) for k, v in E["signatures"].items() if k != pub}
        signed_before = refcanon(E["signed"])
        if impl == "lib-raw":
            # a caller that builds the key object on the fly (PrivateKey.from_hex per signature) and drops it afterwards
            if op.get("fresh") and self.keys.seeds[i] is not None:
                pk = (self.lib.common.PrivateKey.from_hex(self.keys.seeds[i].hex()) if op.get("fresh") == "hex" else
                      self.lib.common.PrivateKey.from_bytes(self.keys.seeds[i]))
            else:
                pk = self.keys.priv[i]
            o = self.calls.raw("sign_signable", E, pk)
            del pk
            if not o.ok:
                self.run.violate(("C09", "C02"), "sign-failed", "sign_signable raised %r" % (o,), "sign-failed:" + o.cls)
                return
            ent = E["signatures"].get(pub)
            if not (type(ent) is dict and ref_is_raw_entry(ent)):
                self.run.violate(("C09",), "sign-entry", "no well-formed entry under the signer's public key hex")
                return
            self.ledger.record_raw(pub, payload_hash(E["signed"]), ent["signature"])
            self.libmade.add((pub, ent["signature"]))
            if self._sampled(self.h.get("indep_sample", 0.03)):
                self.run.probe("indep_recheck_of_lib_signature")
                if rfc8032.sign(self.keys.seeds[i], signed_before).hex() != ent["signature"]:
                    self.run.violate(("C09", "C07"), "sign-not-rfc8032",
                                     "signature differs from RFC 8032 signature over the reference canonical bytes")
        elif impl == "lib-gpg":
            self.clock += 1
            o = self.calls.raw("sign_root_metadata_dict_via_gpg", E, self.keys.fpr[i])
            if not o.ok:
                self.run.violate(("C10", "C02"), "gpg-sign-failed", "sign_root_metadata_dict_via_gpg raised %r" % (o,),
                                 "gpg-sign-failed:" + o.cls)
                return
            ent = E["signatures"].get(pub)
            if self.gpgstub.last_content_hash != payload_hash(E["signed"]):
                self.run.violate(("C10", "C07"), "gpg-signed-wrong-bytes",
                                 "the bytes handed to GnuPG are not the reference canonical bytes of the payload")
                return
            if not ref_is_pgp_entry(ent):
                self.run.violate(("C10",), "gpg-entry", "GPG path did not file a well-formed OpenPGP entry under q")
                return
            if (ent["other_headers"], ent["signature"]) != getattr(self.gpgstub, "last_sig", None):
                self.run.violate(("C10", "C09", "C02"), "gpg-entry-not-fresh",
                                 "after signing through the GPG path the entry under q is not the signature GnuPG just made", "gpg-entry-not-fresh")
                return
        else:
            ent, _ = self._sign_entry(i, E["signed"], impl, op.get("hdr"), op.get("see_also", False))
            E["signatures"][pub] = ent
        # signing touches only the signer's own entry and never the payload
        now_others = {k: jdump_safe(v) for k, v in E["signatures"].items() if k != pub}
        if now_others != others or refcanon(E["signed"]) != signed_before:
            self.run.violate(("C09",), "sign-touched-others", "signing changed another entry or the payload")
        self.run.probe("sign_" + impl)
        # immediately verifiable with that key authorised
        gpg = impl in ("lib-gpg", "simgpg", "indep-pgp", "otherhash")
        o = self.calls.call("verify_signable", E, [pub], 1, gpg=gpg)
        self._judge(E, [pub], 1, gpg, o, ctx="after-sign")

    def op_sign_other(self, op):
        i = op["key"]
        if i >= len(self.keys):
            return self.run.ev("noop")
        ent, gpg = self._sign_entry(i, op["payload"], op["impl"], op.get("hdr"))
        self.stash.append((i, ent, gpg))

    def op_resign(self, op):
        """Double-sign: signing again with the same key is a no-op on the envelope (raw mode)."""
        e, i = op["env"], op["key"]
        if e >= len(self.envs) or i >= len(self.keys):
            return self.run.ev("noop")
        E = self.envs[e]
        pub = self.keys.pub[i]
        o = self.calls.raw("sign_signable", E, self.keys.priv[i])
        if not o.ok:
            self.run.violate(("C09", "C02"), "sign-failed", "sign_signable raised %r" % (o,), "sign-failed:" + o.cls)
            return
        ent = E["signatures"].get(pub)
        if type(ent) is dict and ref_is_raw_entry(ent):
            self.ledger.record_raw(pub, payload_hash(E["signed"]), ent["signature"])
            self.libmade.add((pub, ent["signature"]))
        b1 = refcanon(E)
        o = self.calls.raw("sign_signable", E, self.keys.priv[i])
        if not o.ok or refcanon(E) != b1:
            self.run.violate(("C09",), "sign-not-idempotent", "signing twice changed the envelope")
        self.run.probe("double_sign")

    def op_file(self, op):
        e = op["env"]
        if e >= len(self.envs):
            return self.run.ev("noop")
        ent = self._resolve_src(op["src"])
        under = self._resolve_under(op["under"])
        if ent is None or under is None or not isinstance(under, str):
            return self.run.ev("noop")
        ent = copy.deepcopy(ent)
        if op.get("tweak"):
            ent = _tweak_entry(ent, op["tweak"])
            if ent is None:
                return self.run.ev("noop")
        self.envs[e]["signatures"][under] = ent
        self.run.fault(op.get("kind", "file"))
        self.env_faults[e].add(op.get("kind", "file"))

    def op_del(self, op):
        e = op["env"]
        if e >= len(self.envs):
            return self.run.ev("noop")
        under = self._resolve_under(op["under"])
        if under in self.envs[e]["signatures"]:
            del self.envs[e]["signatures"][under]
            self.run.fault("drop_entry")

    def op_edit(self, op):
        e = op["env"]
        if e >= len(self.envs):
            return self.run.ev("noop")
        E = self.envs[e]
        before = refcanon(E["signed"])
        path = op["path"]
        if not path:
            E["signed"] = op["value"]
        elif not gen.set_path(E["signed"], path, op["value"]):
            return self.run.ev("noop")
        changed = refcanon(E["signed"]) != before
        self.run.fault("payload_edit" if changed else "payload_edit_noop")
        self.env_faults[e].add("edit")
        if changed and E["signatures"]:
            # every previously made signature stops counting (C09): t=1, every key authorised
            keys = [k for k in E["signatures"] if ref_is_hex_key(k)]
            if keys:
                for gpg in (False, True):
                    o = self.calls.call("verify_signable", E, keys, 1, gpg=gpg)
                    self._judge(E, keys, 1, gpg, o, ctx="after-edit")

    def op_reorder(self, op):
        e = op["env"]
        if e >= len(self.envs):
            return self.run.ev("noop")
        E = self.envs[e]
        items = list(E["signatures"].items())
        r = op.get("rot", 1) % max(1, len(items))
        items = items[r:] + items[:r]
        if op.get("rev"):
            items.reverse()
        E["signatures"] = dict(items)
        if isinstance(E["signed"], dict) and op.get("payload_rev"):
            E["signed"] = dict(reversed(list(E["signed"].items())))
        self.run.fault("reorder")

    def op_verify(self, op):
        e = op["env"]
        if e >= len(self.envs):
            return self.run.ev("noop")
        E = self.envs[e]
        auth, t, gpg = op["auth"], op["t"], op["gpg"]
        o = self.calls.call("verify_signable", E, auth, t, gpg=gpg)
        self._judge(E, auth, t, gpg, o, ctx="verify", faults=self.env_faults[e])

    def op_probe(self, op):
        """k distinct authorised signers: verifies for every t <= k and for none above (C09)."""
        e = op["env"]
        if e >= len(self.envs):
            return self.run.ev("noop")
        E = self.envs[e]
        auth, gpg = op["auth"], op["gpg"]
        if not keylist_ok(auth):
            return self.run.ev("noop")
        k = len(counted_keys(self.ledger, E["signed"], E["signatures"], auth, gpg))
        self.run.probe("threshold_sweep")
        for t in range(1, k + 2):
            o = self.calls.call("verify_signable", E, auth, t, gpg=gpg)
            self._judge(E, auth, t, gpg, o, ctx="probe")
            if self.run.stop:
                return

    def op_order_check(self, op):
        """Signing by several keys in any order yields the same envelope (C09)."""
        order = [i for i in op["order"] if i < len(self.keys)]
        if not order:
            return self.run.ev("noop")
        outs = []
        for seq in (order, sorted(order)):
            o = self.calls.raw("wrap_as_signable", copy.deepcopy(op["payload"]))
            if not o.ok:
                return self.run.ev("noop")
            E = o.value
            for i in seq:
                s = self.calls.raw("sign_signable", E, self.keys.priv[i])
                if not s.ok:
                    self.run.violate(("C09", "C02"), "sign-failed", "sign_signable raised %r" % (s,), "sign-failed:" + s.cls)
                    return
            outs.append(E)
        self.run.probe("order_independence_checked")
        if not typed_eq(outs[0], outs[1]) or refcanon(outs[0]) != refcanon(outs[1]):
            self.run.violate(("C09",), "order-dependent", "signing order changed the resulting envelope")
        for i in order:
            ent = outs[0]["signatures"].get(self.keys.pub[i])
            if isinstance(ent, dict) and ref_is_raw_entry(ent):
                self.ledger.record_raw(self.keys.pub[i], payload_hash(op["payload"]), ent["signature"])
                self.libmade.add((self.keys.pub[i], ent["signature"]))
        auth = [self.keys.pub[i] for i in sorted(set(order))]
        for t in (len(auth), len(auth) + 1):
            o = self.calls.call("verify_signable", outs[0], auth, t)
            self._judge(outs[0], auth, t, False, o, ctx="order-check")

    def op_tick(self, op):
        pass

    def op_verify_faulted(self, op):
        """Fail-closed under faults: an exception striking at an arbitrary point inside the verifier may make the call
        fail, but must never turn a rejection into an acceptance."""
        e = op["env"]
        if e >= len(self.envs):
            return self.run.ev("noop")
        E = self.envs[e]
        auth, t, gpg = op["auth"], op["t"], op["gpg"]
        exc = {"OSError": OSError(5, "injected"), "MemoryError": MemoryError("injected"), "KeyboardInterrupt": KeyboardInterrupt(),
               "ValueError": ValueError("injected"), "InvalidSignature": None, "UnicodeError": UnicodeEncodeError("ascii", "x", 0, 1, "injected"),
               "KeyError": KeyError("injected"), "RuntimeError": RuntimeError("injected")}.get(op["exc"])
        if op["exc"].startswith("stdout:"):
            # the verifier's own diagnostics meet a standard output that starts failing at its n-th write
            self.calls.out.arm(op["line"], op["exc"][7:])
            o = self.calls.raw("verify_signable", E, auth, t, gpg=gpg)
            fired = self.calls.out.disarm()
            self.run.fault("stdout_write_failure_" + op["exc"][7:]) if fired else self.run.probe("fault_point_beyond_call")
        else:
            if exc is None:
                import importlib
                exc = importlib.import_module("cryptography.exceptions").InvalidSignature("injected")
            o, fired = self.calls.faulted("verify_signable", op["line"], exc, E, auth, t, gpg=gpg)
            self.run.fault("exception_inside_verifier_" + op["exc"]) if fired else self.run.probe("fault_point_beyond_call")
        args_ok = keylist_ok(auth) and threshold_ok(t)
        k = len(counted_keys(self.ledger, E["signed"], E["signatures"], auth, gpg)) if args_ok else 0
        if o.ok:
            self.run.accepts += 1
            if not (args_ok and k >= t):
                self.run.violate(("C01", "C13"), "accepted-under-fault",
                                 "verify_signable returned normally with %d valid authorised signer(s) for threshold %r after %s was raised at line "
                                 "event %d inside the verifier: the failure was swallowed into an acceptance" % (k, t, op["exc"], op["line"]),
                                 "accepted-under-fault:" + op["exc"])
        else:
            self.run.rejects += 1

    def op_vs(self, op):
        """Direct call of the raw single-signature primitive: valid exactly when the ledger holds that signature by that
        key over exactly these bytes."""
        e, i = op["env"], op["key"]
        if e >= len(self.envs) or i >= len(self.keys) or self.keys.priv[i] is None:
            return self.run.ev("noop")
        E = self.envs[e]
        ent = E["signatures"].get(self.keys.pub[i])
        if not (isinstance(ent, dict) and isinstance(ent.get("signature"), str) and len(ent["signature"]) == 128):
            return self.run.ev("noop")
        sig = ent["signature"]
        if op.get("flip") is not None:
            pos = op["flip"] % 128
            sig = sig[:pos] + ("0" if sig[pos] != "0" else "1") + sig[pos + 1:]
        j = op.get("under", i)
        j = j if j < len(self.keys) and self.keys.priv[j] is not None else i
        data = refcanon(E["signed"])
        if op.get("data") == "other":
            data = data + b" "
        elif op.get("data") == "bytearray":
            data = bytearray(data)
        try:
            pub = self.lib.common.PublicKey.from_hex(self.keys.pub[j])
        except (TypeError, ValueError):
            return self.run.ev("noop")
        if op.get("data") == "bytearray" and isinstance(ent.get("other_headers"), str):
            # the OpenPGP primitive with a mutable buffer as data: whatever it answers, the caller's buffer is the caller's (C12, argument snapshot)
            self.calls.call("verify_gpg_signature", dict(ent), self.keys.pub[j], data)
            return
        o = self.calls.call("verify_signature", sig, pub, data)
        valid = isinstance(data, bytes) and (self.keys.pub[j], __import__("hashlib").sha256(data).hexdigest(), sig) in self.ledger.raw
        self.run.probe("vs_valid" if valid else "vs_invalid")
        if o.ok != valid:
            ind = isinstance(data, bytes) and rfc8032.verify(bytes.fromhex(self.keys.pub[j]), bytes(data), bytes.fromhex(sig))
            if ind != valid:
                raise HarnessError("raw primitive: ledger %r vs independent %r" % (valid, ind))
            self.run.violate(("C01", "C09") if o.ok else ("C02", "C09"), "raw-primitive-wrong",
                             "verify_signature %s although the signature is %s" % ("returned" if o.ok else "raised " + o.cls, "valid" if valid else "invalid"),
                             "raw-primitive-wrong:" + ("accept" if o.ok else o.cls))

    def op_cross_mode(self, op):
        """The same envelope judged in one signature mode and then - with its entries re-dressed - in the other: an OpenPGP entry
        reduced to its bare signature value is not a raw signature, a raw entry given headers is not an OpenPGP signature, and a raw
        signature over payload||headers||trailer is not an OpenPGP signature over payload.  What an earlier call (in the other mode,
        or of the single-signature primitive) has seen must not make the later one count them."""
        e = op["env"]
        if e >= len(self.envs):
            return self.run.ev("noop")
        E = self.envs[e]
        auth = [k for k in self.keys.pub]
        gpg = self.env_gpg[e]
        k0 = len(counted_keys(self.ledger, E["signed"], E["signatures"], auth, gpg))
        o = self.calls.call("verify_signable", E, auth, max(1, k0), gpg=gpg)
        self._judge(E, auth, max(1, k0), gpg, o, ctx="cross-mode-first")
        if self.run.stop:
            return
        E2 = {"signatures": {}, "signed": E["signed"]}
        for k, ent in E["signatures"].items():
            if not isinstance(ent, dict) or not isinstance(ent.get("signature"), str):
                continue
            if gpg:
                E2["signatures"][k] = {"signature": ent["signature"]}
            else:
                E2["signatures"][k] = {"other_headers": op.get("hdr", "04001608"), "signature": ent["signature"]}
        if op.get("prim_key") is not None and op["prim_key"] < len(self.keys) and self.keys.priv[op["prim_key"]] is not None:
            # the key holder really signs, in raw mode, the bytes an OpenPGP verifier would hash; the primitive sees that signature first
            i = op["prim_key"]
            hdr = bytes.fromhex(op.get("hdr", "04001608"))
            B = refcanon(E["signed"]) + hdr + b"\x04\xff" + len(hdr).to_bytes(4, "big")
            sig = self.keys.priv[i].sign(B).hex()
            self.ledger.record_raw(self.keys.pub[i], __import__("hashlib").sha256(B).hexdigest(), sig)
            try:
                pubobj = self.lib.common.PublicKey.from_hex(self.keys.pub[i])
                self.calls.raw("verify_signature", sig, pubobj, B)
            except (TypeError, ValueError):
                pass
            E2 = {"signatures": {self.keys.pub[i]: {"other_headers": hdr.hex(), "signature": sig}}, "signed": E["signed"]}
            gpg = False          # judged in OpenPGP mode below
        self.run.fault("entries_redressed_for_other_mode")
        g2 = not gpg
        k2 = len(counted_keys(self.ledger, E2["signed"], E2["signatures"], auth, g2))
        o2 = self.calls.call("verify_signable", E2, auth, max(1, k2), gpg=g2)
        self._judge(E2, auth, max(1, k2), g2, o2, ctx="cross-mode-second")

    def _twin_of(self, payload, kind):
        """A different JSON value that collides with `payload` under a weak summary (length + CRC-32 of the canonical
        bytes, or Python ==).  None if this payload has no such twin."""
        import json as _json
        import twins
        if kind == "pyeq":
            t = twins.python_eq_twin(payload)
            return None if t is None or refcanon(t[0]) == refcanon(payload) else t[0]
        if kind == "nfc":
            # one member name respelled in the other Unicode normalisation form (canonically equivalent, a different JSON string)
            import unicodedata

            def walk(v):
                if isinstance(v, dict):
                    for k in list(v):
                        for form in ("NFD", "NFC"):
                            k2 = unicodedata.normalize(form, k)
                            if k2 != k and k2 not in v:
                                return {(k2 if kk == k else kk): vv for kk, vv in v.items()}
                    for k in v:
                        t = walk(v[k])
                        if t is not None:
                            return {kk: (t if kk == k else vv) for kk, vv in v.items()}
                elif isinstance(v, list):
                    for i, x in enumerate(v):
                        t = walk(x)
                        if t is not None:
                            return v[:i] + [t] + v[i + 1:]
                return None
            try:
                t = walk(payload)
            except (TypeError, ValueError):
                t = None
            return None if t is None or refcanon(t) == refcanon(payload) else t
        data = refcanon(payload)
        # longest run of characters that stay inside a JSON string when their low bits flip
        best, cur = (0, 0), None
        for i, c in enumerate(data + b"\x00"):
            ok = c in twins._SAFE
            if ok and cur is None:
                cur = i
            if not ok and cur is not None:
                if i - cur > best[1] - best[0]:
                    best = (cur, i)
                cur = None
        if best[1] - best[0] < 12:
            return None
        tb = twins.crc32_twin(data, best[0], best[1])
        if tb is None:
            return None
        try:
            v = _json.loads(tb)
        except ValueError:
            return None
        if refcanon(v) != tb or tb == data:
            return None
        return v

    def op_twin(self, op):
        """The verifier sees the genuine envelope, then the same signature map over a twin payload (same length and
        CRC-32 of the canonical bytes, or == in Python): a remembered verdict keyed by anything weaker than the data
        itself turns the second call into an acceptance."""
        e = op["env"]
        if e >= len(self.envs):
            return self.run.ev("noop")
        E = self.envs[e]
        tw = self._twin_of(E["signed"], op["kind"])
        if tw is None:
            return self.run.ev("noop")
        auth, t, gpg = op["auth"], op["t"], op["gpg"]
        o = self.calls.call("verify_signable", E, auth, t, gpg=gpg)
        self._judge(E, auth, t, gpg, o, ctx="before-twin")
        if self.run.stop:
            return
        E2 = {"signatures": copy.deepcopy(E["signatures"]), "signed": tw}
        self.run.fault("twin_payload_" + op["kind"])
        o2 = self.calls.call("verify_signable", E2, auth, t, gpg=gpg)
        self._judge(E2, auth, t, gpg, o2, ctx="twin-" + op["kind"])

    def op_bulk_junk(self, op):
        """Many junk entries at once (a flooded signature map)."""
        import random
        e = op["env"]
        if e >= len(self.envs):
            return self.run.ev("noop")
        r = random.Random(op["seed"])
        junk = {}
        for _ in range(op["n"]):
            k = gen.junk_key(r, self.keys.pub)
            if k not in self.keys.pub and k not in self.envs[e]["signatures"]:
                junk[k] = gen.junk_entry(r)
        if op.get("front"):
            # the flood comes first in the map's order, the real entries after it
            junk.update(self.envs[e]["signatures"])
            self.envs[e]["signatures"] = junk
        else:
            self.envs[e]["signatures"].update(junk)
        self.run.fault("bulk_junk")
        self.env_faults[e].add("bulk_junk")

    def op_verify_shape(self, op):
        """An envelope that is not a two-member signed envelope must never be accepted."""
        e = op["env"]
        if e >= len(self.envs):
            return self.run.ev("noop")
        E = copy.deepcopy(self.envs[e])
        shape = op["shape"]
        if shape == "extra_member":
            E["extra"] = 1
        elif shape == "no_signed":
            E.pop("signed", None)
        elif shape == "no_signatures":
            E.pop("signatures", None)
        elif shape == "sigs_list":
            E["signatures"] = [[k, v] for k, v in E["signatures"].items()]
        elif shape == "sigs_none":
            E["signatures"] = None
        elif shape == "as_list":
            E = [E["signatures"], E["signed"]]
        elif shape == "renamed":
            E["Signed"] = E.pop("signed")
        elif shape == "nested":
            E = {"signatures": {}, "signed": E}
        auth, t, gpg = op["auth"], op["t"], op["gpg"]
        o = self.calls.call("verify_signable", E, auth, t, gpg=gpg)
        self.run.fault("malformed_envelope_" + shape)
        if shape == "nested":
            self._judge(E, auth, t, gpg, o, ctx="verify-nested")
            return
        if o.ok:
            self.run.violate(("C01",), "accepted-malformed-envelope", "verify_signable accepted an object that is not a signed envelope (%s)" % shape,
                             "accepted-malformed-envelope:" + shape)

    # ------------------------------------------------------------------ oracle
    def _judge(self, E, auth, t, gpg, o, ctx, faults=()):
        run = self.run
        shape_ok = (type(E) is dict and set(E) == {"signatures", "signed"} and type(E["signatures"]) is dict)
        args_ok = shape_ok and keylist_ok(auth) and threshold_ok(t) and gpg in (True, False)
        counted = counted_keys(self.ledger, E["signed"], E["signatures"], auth, gpg) if args_ok else []
        k = len(counted)
        model_accept = args_ok and k >= t
        margin = max(-2, min(2, k - t)) if args_ok else None
        run.fp("env", min(len(set(auth)) if keylist_ok(auth) else 0, 4), t if isinstance(t, int) and 0 <= t < 5 else "x",
               margin, bool(gpg), o.cls, sorted(faults)[:3], len(E["signatures"]) > k)
        if args_ok:
            if k == t:
                run.probe("accepted_with_exactly_threshold" if o.ok else "rejected_at_exactly_threshold")
            if k == t - 1:
                run.probe("rejected_with_threshold_minus_1" if not o.ok else "accepted_with_threshold_minus_1")
            if len(E["signatures"]) > k and o.ok:
                run.probe("accepted_despite_junk")
        else:
            run.probe("malformed_arguments")
        if o.ok and not model_accept:
            # tie-breaker before raising the alarm
            n_ind = self._indep_count(E, auth, gpg) if shape_ok and keylist_ok(auth) else 0
            if args_ok and n_ind >= t:
                raise HarnessError("ledger says %d, independent verifier says %d >= t=%r" % (k, n_ind, t))
            run.violate(self.history_tag(("C01", "C09", "C10") if gpg else ("C01", "C09"), o, lambda: self.calls.raw("verify_signable", E, auth, t, gpg=gpg)),
                        "accepted-without-quorum",
                        "%s: verify_signable accepted with %d valid authorised signer(s), threshold %r, gpg=%r, "
                        "args_ok=%r" % (ctx, k, t, gpg, args_ok), "accepted-without-quorum")
            return
        if not o.ok and model_accept:
            if type(t) is int:
                n_ind = self._indep_count(E, auth, gpg)
                if n_ind < t:
                    bad = [kk for kk in counted if not independent_entry_valid(kk, E["signed"], E["signatures"][kk], gpg)]
                    if bad and all((kk, E["signatures"][kk].get("signature")) in self.libmade for kk in bad):
                        run.violate(("C09", "C02", "C07"), "lib-signature-invalid",
                                    "a signature produced by the library's own signer does not verify over the "
                                    "reference canonical bytes of the payload (independent RFC 8032 check)",
                                    "lib-signature-invalid")
                        return
                    raise HarnessError("ledger says %d >= t, independent verifier says %d" % (k, n_ind))
                site = __import__("seams").exc_site(self.lib, o.exc)
                run.violate(self.history_tag(("C02", "C09", "C10") if gpg else ("C02", "C09"), o, lambda: self.calls.raw("verify_signable", E, auth, t, gpg=gpg)),
                            "rejected-with-quorum",
                            "%s: verify_signable raised %s (%s) at %s although %d >= %d distinct authorised keys "
                            "have valid %s signatures; stdout encoding %s"
                            % (ctx, o.cls, str(o.exc)[:160], site, k, t, "OpenPGP" if gpg else "raw",
                               self.h.get("encoding")),
                            "rejected-with-quorum:%s@%s" % (o.cls, site))
            return
        if not o.ok and args_ok and not model_accept:
            if not isinstance(o.exc, self.lib.SignatureError):
                site = __import__("seams").exc_site(self.lib, o.exc)
                run.violate(("C13",), "wrong-class-insufficient",
                            "insufficient signatures reported as %s, not SignatureError" % o.cls,
                            "verify_signable:%s@%s" % (o.cls, site))
        if o.ok and self._sampled(0.02):
            n_ind = self._indep_count(E, auth, gpg)
            run.probe("indep_recheck_of_acceptance")
            if n_ind < t:
                raise HarnessError("sampled re-check: ledger %d vs independent %d" % (k, n_ind))
        if o.ok:
            # C06(a): the envelope that keeps only its valid signatures by authorised keys is accepted too
            S = {"signatures": {kk: copy.deepcopy(E["signatures"][kk]) for kk in counted},
                 "signed": E["signed"]}
            if len(S["signatures"]) != len(E["signatures"]):
                run.probe("strip_removed_entries")
            o2 = self.calls.call("verify_signable", S, auth, t, gpg=gpg)
            if not o2.ok:
                run.violate(("C06",), "strip-not-accepted",
                            "envelope accepted, but the same envelope stripped of non-counting entries raised %r" % (o2,),
                            "strip-not-accepted")

    def _indep_count(self, E, auth, gpg):
        n = 0
        for kk in sorted(set(auth)):
            if kk in E["signatures"] and independent_entry_valid(kk, E["signed"], E["signatures"][kk], gpg):
                n += 1
        return n

    # ------------------------------------------------------------------ generator
    def gen(self, rng):
        h = self.h
        nk = len(self.keys)
        if not self.envs or (len(self.envs) < 3 and rng.random() < 0.08):
            pl = gen.gen_payload(rng, h.get("nonfinite", True))
            k = rng.random()
            if k < 0.15:
                pl = {"name": "pkg%d" % rng.randint(0, 9), "version": "1.%d" % rng.randint(0, 9), "build_number": rng.randint(0, 5), "size": rng.randint(1, 10**7),
                      "sha256": "%064x" % rng.getrandbits(256), "md5": "%032x" % rng.getrandbits(128), "depends": ["python >=3.%d" % rng.randint(6, 12)],
                      "timestamp": float(rng.randint(10**9, 2 * 10**9)) if rng.random() < 0.5 else rng.randint(10**9, 2 * 10**9)}
            elif k < 0.19:
                pl = {"signatures": {}, "signed": pl}           # counter-signing: the payload is itself an envelope
            op = {"op": "new_env", "payload": pl, "gpg": rng.random() < h["gpg_bias"], "tuples": rng.random() < 0.2}
            if not op["tuples"] and rng.random() < 0.2:
                op["subclass"] = rng.choice(["ordered", "default", "sub", "alternate"])
            if rng.random() < 0.12:
                op["shared"] = True
            if isinstance(pl, dict) and rng.random() < 0.15:
                pl[rng.choice(["caf\u00e9", "\u00c5ngstr\u00f6m", "na\u00efve-\u1e9b\u0323", "e\u0301t\u00e9"])] = rng.choice([1, "x", [], {"caf\u00e9": 2}])
            if isinstance(pl, dict) and rng.random() < 0.02:
                op["pad"] = rng.choice([70000, 70000, 150000, 400000])
                hv = [c for c in gen.harvested(2000, 3 << 20, around=False)]
                if hv and rng.random() < 0.6:
                    op["pad"] = int(rng.choice(hv) * rng.choice([1.1, 1.5, 2.2]))
            return op
        e = rng.randrange(len(self.envs))
        E = self.envs[e]
        gpg = self.env_gpg[e]
        rate = {"none": 0.0, "low": 0.15, "medium": 0.4}[h["fault_rate"]]
        r = rng.random()
        dt = rng.choice([0, 0, 1, 60, 86400])
        if r < rate:
            op = self._gen_attack(rng, e, E, gpg)
            if op:
                op["dt"] = dt
                return op
        r = rng.random()
        if r < 0.34:
            i = rng.randrange(nk)
            impl = rng.choice(IMPLS_PGP if gpg else IMPLS_RAW)
            op = {"op": "sign", "env": e, "key": i, "impl": impl, "dt": dt, "fresh": rng.choice([False, True, "hex"])}
            if impl in ("simgpg", "indep-pgp") and rng.random() < 0.5:
                op["hdr"] = _gen_headers(rng)
                if rng.random() < 0.4:
                    # structurally consistent version-4 header naming some algorithm pair (the digest is SHA-256 all the same)
                    op["hdr"] = _v4_header(rng, self.keys.fpr[i], rng.getrandbits(31), rng.choice([8, 8, 9, 10, 11, 2, 1, 12, 0, 255]),
                                           rng.choice([0, 0, 1, 0x10, 0x13]), rng.choice([22, 22, 22, 1, 19])).hex()
            if impl in ("simgpg", "indep-pgp") and rng.random() < 0.3:
                op["see_also"] = True
            return op
        if r < 0.62:
            return self._gen_verify(rng, e, E, gpg, dt)
        if r < 0.70:
            return {"op": "probe", "env": e, "auth": self._gen_auth(rng, E, wellformed=True), "gpg": gpg, "dt": dt}
        if r < 0.74 and not gpg:
            return {"op": "resign", "env": e, "key": rng.randrange(nk), "dt": dt}
        if r < 0.76 and (not gpg or rng.random() < 0.3):
            op = {"op": "vs", "env": e, "key": rng.randrange(nk), "dt": dt}
            if gpg:
                op["data"] = "bytearray"
                return op
            k = rng.random()
            if k < 0.3:
                op["flip"] = rng.randrange(128)
            elif k < 0.5:
                op["under"] = rng.randrange(nk)
            elif k < 0.65:
                op["data"] = "other"
            elif k < 0.75:
                op["data"] = "bytearray"
            return op
        if r < 0.82:
            k = rng.randint(1, min(nk, 4))
            return {"op": "order_check", "payload": gen.gen_payload(rng, h.get("nonfinite", True)),
                    "order": [rng.randrange(nk) for _ in range(k)], "dt": dt}
        if r < 0.87:
            return {"op": "reorder", "env": e, "rot": rng.randint(0, 5), "rev": rng.random() < 0.5,
                    "payload_rev": rng.random() < 0.5, "dt": dt}
        if r < 0.895 and rate > 0:
            auth = self._gen_auth(rng, E, wellformed=True)
            kk = len(counted_keys(self.ledger, E["signed"], E["signatures"], auth, gpg))
            return {"op": "twin", "env": e, "kind": rng.choice(["crc", "crc", "pyeq", "nfc"]), "auth": auth, "t": max(1, kk), "gpg": gpg, "dt": dt}
        if r < 0.9 and rate > 0:
            op = {"op": "cross_mode", "env": e, "dt": dt, "hdr": rng.choice(["04001608", "0400160800000000", "04011608000605020a0b0c0d"])}
            if rng.random() < 0.4:
                op["prim_key"] = rng.randrange(nk)
            return op
        if r < 0.905 and rate > 0:
            auth = self._gen_auth(rng, E, wellformed=True)
            kk = len(counted_keys(self.ledger, E["signed"], E["signatures"], auth, gpg))
            op = {"op": "verify_faulted", "env": e, "auth": auth, "t": rng.choice([kk + 1, kk + 1, max(1, kk)]), "gpg": gpg, "dt": dt,
                  "line": rng.randint(1, 40 + 12 * len(E["signatures"])),
                  "exc": rng.choice(["OSError", "MemoryError", "KeyboardInterrupt", "ValueError", "InvalidSignature", "UnicodeError", "KeyError", "RuntimeError"])}
            if rng.random() < 0.5:
                op["exc"] = "stdout:" + rng.choice(["ENOSPC", "EPIPE", "EIO", "closed"])
                op["line"] = rng.randint(1, 2 + 2 * len(E["signatures"]))
            return op
        if r < 0.92 and rate > 0:
            auth = self._gen_auth(rng, E, wellformed=True)
            return {"op": "verify_shape", "env": e, "auth": auth, "t": rng.randint(1, 2), "gpg": gpg, "dt": dt,
                    "shape": rng.choice(["extra_member", "no_signed", "no_signatures", "sigs_list", "sigs_none", "as_list", "renamed", "nested"])}
        if r < 0.935 and rate > 0:
            ns = [10, 50, 120, 300, 300, 1100, 5000]
            hv = gen.harvested(6, 9000)
            if hv and rng.random() < 0.5:
                ns = hv                 # counts the code under test itself names (caps, cache sizes), and their neighbours
            return {"op": "bulk_junk", "env": e, "n": rng.choice(ns), "seed": rng.getrandbits(30), "dt": dt, "front": rng.random() < 0.5}
        if r < 0.96 and rate > 0:
            ps = gen.paths(E["signed"])
            p = list(rng.choice(ps))
            old = gen.get_path(E["signed"], p) if p else E["signed"]
            val = rng.choice([gen.confuse(rng, old), _near_value(rng, old)])
            return {"op": "edit", "env": e, "path": p, "value": val, "dt": dt}
        return self._gen_verify(rng, e, E, gpg, dt)

    def _gen_auth(self, rng, E, wellformed=False):
        nk = len(self.keys)
        r = rng.random()
        idx = [i for i in range(nk) if rng.random() < 0.7] or [rng.randrange(nk)]
        rng.shuffle(idx)
        auth = [self.keys.pub[i] for i in idx]
        odd64 = [k for k in E["signatures"] if isinstance(k, str) and len(k) == 64 and k not in self.keys.pub and all(c in "0123456789abcdef" for c in k)]
        if odd64 and rng.random() < 0.5:
            auth.append(rng.choice(odd64))           # a well-formed name present in the map that is nobody's public key (e.g. a seed's hex text)
        if r < 0.1:
            auth.append(auth[0])                     # duplicate in the authorised list
        if r < 0.2:
            auth.append(gen.junk_key(rng)[:0] + "".join(rng.choice("0123456789abcdef") for _ in range(64)))
        if not wellformed and r > 0.93:
            bad = rng.choice(["upper", "nonlist", "short", "nonstr", "present", "present"])
            odd = [k for k in E["signatures"] if isinstance(k, str) and k not in self.keys.pub and len(k) >= 60]
            if bad == "present" and odd:
                auth.append(rng.choice(odd))             # a non-canonical spelling that is present in the signature map
            elif bad in ("upper", "present"):
                auth.append(gen.respell(auth[0], rng.choice(["upper", "first_upper", "upper"])))
            elif bad == "nonlist":
                return {k: 1 for k in auth}
            elif bad == "short":
                auth.append(auth[0][:-2])
            else:
                auth.append(rng.choice([None, 5, ["x"]]))
        return auth

    def _gen_verify(self, rng, e, E, gpg, dt):
        auth = self._gen_auth(rng, E)
        mode = gpg if rng.random() < 0.9 else (not gpg)
        if isinstance(auth, list) and keylist_ok(auth):
            k = len(counted_keys(self.ledger, E["signed"], E["signatures"], auth, mode))
        else:
            k = 1
        r = rng.random()
        if r < 0.35:
            t = max(1, k)
        elif r < 0.6:
            t = k + 1
        elif r < 0.75:
            t = max(1, k - 1)
        elif r < 0.93:
            t = rng.randint(1, len(auth) + 1 if isinstance(auth, list) else 2)
        else:
            t = rng.choice([0, -1, True, False, 2.0, 1.0, "1", None, float("inf"), [1], 10**30])
        return {"op": "verify", "env": e, "auth": auth, "t": t, "gpg": mode, "dt": dt}

    def _gen_attack(self, rng, e, E, gpg):
        nk = len(self.keys)
        kinds = [k for k in ATTACKS if k in self.h["enabled"]]
        if not kinds:
            return None
        kind = rng.choice(kinds)
        signed_keys = [i for i in range(nk) if self.keys.pub[i] in E["signatures"]]
        hx = lambda n: "".join(rng.choice("0123456789abcdef") for _ in range(n))  # noqa: E731
        if kind == "misfile" and signed_keys:
            a = rng.choice(signed_keys)
            b = rng.randrange(nk)
            if a != b:
                return {"op": "file", "kind": kind, "env": e, "src": ["env", e, a], "under": ["key", b]}
        if kind == "respell" and signed_keys:
            a = rng.choice(signed_keys)
            return {"op": "file", "kind": kind, "env": e, "src": ["env", e, a],
                    "under": ["spell", a, rng.choice(gen.SPELLINGS)]}
        if kind == "replay":
            # a signature really made by key a over another payload, filed under a
            if self.stash and rng.random() < 0.6:
                n = rng.randrange(len(self.stash))
                return {"op": "file", "kind": kind, "env": e, "src": ["stash", n], "under": ["key", self.stash[n][0]]}
            a = rng.randrange(nk)
            other = _near_payload(rng, E["signed"])
            impl = rng.choice(["simgpg", "indep-pgp"] if gpg else ["indep-raw"]) if rng.random() < 0.3 else ("simgpg" if gpg else "indep-raw")
            return {"op": "sign_other", "key": a, "payload": other, "impl": impl}
        if kind == "cross_env" and len(self.envs) > 1:
            e2 = rng.choice([x for x in range(len(self.envs)) if x != e])
            ks = [i for i in range(nk) if self.keys.pub[i] in self.envs[e2]["signatures"]]
            if ks:
                a = rng.choice(ks)
                return {"op": "file", "kind": kind, "env": e, "src": ["env", e2, a], "under": ["key", a]}
        if kind == "junk":
            return {"op": "file", "kind": kind, "env": e, "src": ["lit", gen.junk_entry(rng)],
                    "under": ["lit", gen.junk_key(rng, self.keys.pub)]}
        if kind == "junk_value":
            a = rng.randrange(nk)
            if rng.random() < 0.2:
                ent = {"signature": hx(128)} if not gpg else {"other_headers": hx(12), "signature": hx(128)}
                return {"op": "file", "kind": "seed_as_key", "env": e, "src": ["lit", ent], "under": ["seedhex", a]}
            return {"op": "file", "kind": kind, "env": e, "src": ["lit", gen.junk_entry(rng)], "under": ["key", a]}
        if kind == "bitflip" and signed_keys:
            a = rng.choice(signed_keys)
            ent = E["signatures"][self.keys.pub[a]]
            fields = [f for f in ("signature", "other_headers") if isinstance(ent, dict) and isinstance(ent.get(f), str) and ent.get(f)]
            if fields:
                f = rng.choice(fields)
                pos = rng.randrange(len(ent[f]))
                new = rng.choice([c for c in "0123456789abcdef" if c != ent[f][pos]])
                return {"op": "file", "kind": kind, "env": e, "src": ["env", e, a], "under": ["key", a],
                        "tweak": ["flip", f, pos, new]}
        if kind == "truncate" and signed_keys:
            a = rng.choice(signed_keys)
            tw = rng.choice([["trunc", "signature", 2], ["ext", "signature", "00"], ["swap_rs"],
                             ["trunc", "other_headers", 2], ["ext", "other_headers", hx(2)],
                             ["upper", "signature"], ["extra", "note", "x"],
                             ["respell", "signature", rng.choice(gen.SPELLINGS)], ["respell", rng.choice(["signature", "other_headers", "see_also"]), rng.choice(gen.SPELLINGS)]])
            return {"op": "file", "kind": kind, "env": e, "src": ["env", e, a], "under": ["key", a], "tweak": tw}
        if kind == "pgp_games" and signed_keys:
            a = rng.choice(signed_keys)
            tw = rng.choice([["hdr_shift", rng.randint(1, 8)], ["hdr_trailer"], ["to_raw"], ["add_hdr", hx(rng.choice([2, 20]))],
                             ["see_also", hx(40)], ["see_also", None], ["see_also", hx(38)]])
            return {"op": "file", "kind": kind, "env": e, "src": ["env", e, a], "under": ["key", a], "tweak": tw}
        if kind == "drop" and signed_keys:
            return {"op": "del", "env": e, "under": ["key", rng.choice(signed_keys)]}
        if kind == "wrong_mode":
            a = rng.randrange(nk)
            impl = "indep-raw" if gpg else "simgpg"
            return {"op": "sign", "env": e, "key": a, "impl": impl if impl != "indep-raw" else "lib-raw"}
        if kind == "other_hash":
            a = rng.randrange(nk)
            hid = rng.choice(sorted(OTHER_HASHES))
            return {"op": "sign", "env": e, "key": a, "impl": "otherhash", "hdr": _v4_header(rng, self.keys.fpr[a], rng.getrandbits(31), hid).hex()}
        if kind == "many_junk":
            return {"op": "file", "kind": kind, "env": e, "src": ["lit", gen.junk_entry(rng)],
                    "under": ["lit", gen.junk_key(rng, self.keys.pub)]}
        return None

    def finish(self):
        # quiescence: every envelope, all keys authorised, threshold = number of real signers, both modes
        for e, E in enumerate(self.envs):
            auth = list(self.keys.pub)
            for gpg in (False, True):
                k = len(counted_keys(self.ledger, E["signed"], E["signatures"], auth, gpg))
                for t in sorted({max(1, k), k + 1}):
                    o = self.calls.call("verify_signable", E, auth, t, gpg=gpg)
                    self._judge(E, auth, t, gpg, o, ctx="quiescence", faults=self.env_faults[e])
                    if self.run.stop:
                        return


ATTACKS = ["misfile", "respell", "replay", "cross_env", "junk", "junk_value", "bitflip", "truncate",
           "pgp_games", "drop", "wrong_mode", "many_junk", "other_hash"]

OTHER_HASHES = {1: "md5", 2: "sha1", 9: "sha384", 10: "sha512", 11: "sha224", 12: "sha3_256", 14: "sha3_512"}


def _v4_header(rng, fpr_hex, t, hash_id=8, sigtype=0, pubalg=22):
    """A structurally consistent version-4 hashed section: version, type, public-key algorithm, hash algorithm,
    two-octet subpacket length, subpackets (issuer fingerprint, creation time and sometimes more)."""
    sub = bytes([0x16, 0x21, 0x04]) + bytes.fromhex(fpr_hex) + bytes([0x05, 0x02]) + int(t % 2**32).to_bytes(4, "big")
    if rng.random() < 0.3:
        sub += bytes([0x05, 0x03]) + rng.getrandbits(32).to_bytes(4, "big")               # signature expiration time
    if rng.random() < 0.2:
        note = bytes(rng.getrandbits(8) for _ in range(rng.randint(1, 30)))
        sub += bytes([len(note) + 1, 0x14]) + note                                          # notation-like
    return bytes([4, sigtype, pubalg, hash_id]) + len(sub).to_bytes(2, "big") + sub


def jdump_safe(v):
    return refcanon_safe(v)


def refcanon_safe(v):
    try:
        return refcanon(v)
    except TypeError:
        return repr(snapshot(v)).encode()


def _tuplify(v, depth):
    """Same JSON value with the arrays at even depth held as tuples."""
    if isinstance(v, dict):
        return {k: _tuplify(x, depth + 1) for k, x in v.items()}
    if isinstance(v, list):
        inner = [_tuplify(x, depth + 1) for x in v]
        return tuple(inner) if depth % 2 == 0 else inner
    return v


class _ListSub(list):
    pass


class _DictSub(dict):
    pass


def _subclassify(v, depth, how):
    """Same JSON value with containers below the root held in subclasses of dict / list (what json.load with an
    object_pairs_hook, collections.defaultdict / Counter or a framework's own record types hand to a caller)."""
    import collections
    if isinstance(v, dict):
        items = [(k, _subclassify(x, depth + 1, how)) for k, x in v.items()]
        if depth == 0 or (how == "alternate" and depth % 2):
            return dict(items)
        if how == "ordered":
            return collections.OrderedDict(items)
        if how == "default":
            d = collections.defaultdict(list)
            d.update(items)
            return d
        return _DictSub(items)
    if isinstance(v, list):
        inner = [_subclassify(x, depth + 1, how) for x in v]
        return inner if depth == 0 or how == "ordered" else _ListSub(inner)
    return v


def _mutate_deep(v):
    """Mutate every mutable container of v in place (looking through tuples); False if there is none."""
    done = [False]

    def walk(x):
        if isinstance(x, dict):
            for y in list(x.values()):
                walk(y)
            x["__mutated__"] = 1
            done[0] = True
        elif isinstance(x, list):
            for y in list(x):
                walk(y)
            x.append("__mutated__")
            done[0] = True
        elif isinstance(x, tuple):
            for y in x:
                walk(y)
    walk(v)
    return done[0]


def _mutate_deepest(v):
    cur, last = v, None
    while isinstance(cur, (dict, list, tuple)):
        if not isinstance(cur, tuple):
            last = cur
        nxt = None
        for x in (cur.values() if isinstance(cur, dict) else cur):
            if isinstance(x, (dict, list, tuple)):
                nxt = x
                break
        if nxt is None:
            break
        cur = nxt
    if last is None:
        return False
    if isinstance(last, dict):
        last["__mutated__"] = 1
    else:
        last.append("__mutated__")
    return True


def _gen_headers(rng):
    n = rng.choice([1, 1, 2, 6, 35, 35, 70, 255, 256, 1000, 70000])
    if n > 2000 and rng.random() < 0.8:
        n = rng.choice([35, 300])
    b = bytes(rng.getrandbits(8) for _ in range(n))
    if rng.random() < 0.2:
        b = b[:-6] + b"\x04\xff" + len(b).to_bytes(4, "big") if n >= 6 else b
    return b.hex()


def _near_value(rng, old):
    if isinstance(old, bool):
        return not old
    if isinstance(old, int):
        return rng.choice([old + 1, float(old) if abs(old) < 2**53 else old - 1, str(old)])
    if isinstance(old, float):
        return rng.choice([old + 1.0, int(old) if old == old and abs(old) < 1e15 else 0, -old])
    if isinstance(old, str):
        return rng.choice([old + " ", old.upper() if old.upper() != old else old + "x", old[:-1]])
    if isinstance(old, list):
        return old + [None]
    if isinstance(old, dict):
        d = dict(old)
        d["extra"] = 1
        return d
    return 0


def _near_payload(rng, p):
    """A payload related to p: same value re-typed (1 vs 1.0), one field changed, earlier version..."""
    q = copy.deepcopy(p)
    ps = gen.paths(q)
    for _ in range(4):
        path = list(rng.choice(ps))
        old = gen.get_path(q, path) if path else q
        new = _near_value(rng, old)
        if not path:
            q = new
            break
        if gen.set_path(q, path, new):
            break
    if refcanon_safe(q) == refcanon_safe(p):
        q = {"other": q}
    return q
