"""Independent pure-Python ed25519 (RFC 8032, section 5.1 / 6), hashlib + big ints only.

Used as (a) the "other conforming implementation" signer in the simulated worlds and
(b) the tie-breaker oracle when the library and the signing ledger disagree.
Never imports `cryptography` (see DESIGN.md section 4: the harness must not import what
the library forgot to import).
"""
import hashlib

p = 2**255 - 19
L = 2**252 + 27742317777372353535851937790883648493
d = -121665 * pow(121666, p - 2, p) % p
I = pow(2, (p - 1) // 4, p)


def _inv(x):
    return pow(x, p - 2, p)


def _recover_x(y, sign):
    if y >= p:
        return None
    x2 = (y * y - 1) * _inv(d * y * y + 1) % p
    if x2 == 0:
        if sign:
            return None
        return 0
    x = pow(x2, (p + 3) // 8, p)
    if (x * x - x2) % p != 0:
        x = x * I % p
    if (x * x - x2) % p != 0:
        return None
    if (x & 1) != sign:
        x = p - x
    return x


_gy = 4 * _inv(5) % p
_gx = _recover_x(_gy, 0)
G = (_gx, _gy, 1, _gx * _gy % p)


def _add(P, Q):
    A = (P[1] - P[0]) * (Q[1] - Q[0]) % p
    B = (P[1] + P[0]) * (Q[1] + Q[0]) % p
    C = 2 * P[3] * Q[3] * d % p
    D = 2 * P[2] * Q[2] % p
    E, F, G_, H = B - A, D - C, D + C, B + A
    return (E * F % p, G_ * H % p, F * G_ % p, E * H % p)


def _mul(s, P):
    Q = (0, 1, 1, 0)
    while s > 0:
        if s & 1:
            Q = _add(Q, P)
        P = _add(P, P)
        s >>= 1
    return Q


def _eq(P, Q):
    if (P[0] * Q[2] - Q[0] * P[2]) % p != 0:
        return False
    if (P[1] * Q[2] - Q[1] * P[2]) % p != 0:
        return False
    return True


def _compress(P):
    zinv = _inv(P[2])
    x = P[0] * zinv % p
    y = P[1] * zinv % p
    return int.to_bytes(y | ((x & 1) << 255), 32, "little")


def _decompress(s):
    if len(s) != 32:
        return None
    y = int.from_bytes(s, "little")
    sign = y >> 255
    y &= (1 << 255) - 1
    x = _recover_x(y, sign)
    if x is None:
        return None
    return (x, y, 1, x * y % p)


def _h(b):
    return hashlib.sha512(b).digest()


def _expand(seed):
    if len(seed) != 32:
        raise ValueError("seed must be 32 bytes")
    h = _h(seed)
    a = int.from_bytes(h[:32], "little")
    a &= (1 << 254) - 8
    a |= 1 << 254
    return a, h[32:]


_pub_cache = {}


def pub(seed):
    """32-byte public key for a 32-byte seed."""
    r = _pub_cache.get(seed)
    if r is None:
        a, _ = _expand(seed)
        r = _compress(_mul(a, G))
        if len(_pub_cache) < 4096:
            _pub_cache[seed] = r
    return r


def sign(seed, msg):
    a, prefix = _expand(seed)
    A = pub(seed)
    r = int.from_bytes(_h(prefix + msg), "little") % L
    Rs = _compress(_mul(r, G))
    h = int.from_bytes(_h(Rs + A + msg), "little") % L
    s = (r + h * a) % L
    return Rs + int.to_bytes(s, 32, "little")


def verify(public, msg, signature):
    """True iff `signature` (64 bytes) is valid for `msg` under `public` (32 bytes)."""
    if len(public) != 32 or len(signature) != 64:
        return False
    A = _decompress(public)
    if A is None:
        return False
    Rs = signature[:32]
    R = _decompress(Rs)
    if R is None:
        return False
    s = int.from_bytes(signature[32:], "little")
    if s >= L:
        return False
    h = int.from_bytes(_h(Rs + public + msg), "little") % L
    sB = _mul(s, G)
    hA = _mul(h, A)
    return _eq(sB, _add(R, hA))


def selftest():
    # RFC 8032 section 7.1, TEST 1-3
    vecs = [
        ("9d61b19deffd5a60ba844af492ec2cc44449c5697b326919703bac031cae7f60",
         "d75a980182b10ab7d54bfed3c964073a0ee172f3daa62325af021a68f707511a", "",
         "e5564300c360ac729086e2cc806e828a84877f1eb8e5d974d873e065224901555fb8821590a33bacc61e39701cf9b46bd25bf5f0595bbe24655141438e7a100b"),
        ("4ccd089b28ff96da9db6c346ec114e0f5b8a319f35aba624da8cf6ed4fb8a6fb",
         "3d4017c3e843895a92b70aa74d1b7ebc9c982ccf2ec4968cc0cd55f12af4660c", "72",
         "92a009a9f0d4cab8720e820b5f642540a2b27b5416503f8fb3762223ebdb69da085ac1e43e15996e458f3613d0f11d8c387b2eaeb4302aeeb00d291612bb0c00"),
        ("c5aa8df43f9f837bedb7442f31dcb7b166d38535076f094b85ce3a2e0b4458f7",
         "fc51cd8e6218a1a38da47ed00230f0580816ed13ba3303ac5deb911548908025", "af82",
         "6291d657deec24024827e69c3abe01a30ce548a284743a445e3680d7db5ac3ac18ff9b538d16f290ae67f760984dc6594a7c15e9716ed28dc027beceea1ec40a"),
    ]
    for sk, pk, m, sg in vecs:
        sk, pk, m, sg = map(bytes.fromhex, (sk, pk, m, sg))
        assert pub(sk) == pk
        assert sign(sk, m) == sg
        assert verify(pk, m, sg)
        assert not verify(pk, m + b"x", sg)
        bad = bytearray(sg); bad[5] ^= 1
        assert not verify(pk, m, bytes(bad))
    return True


if __name__ == "__main__":
    import time
    t = time.time(); selftest(); print("rfc8032 selftest ok", round(time.time() - t, 3), "s")
