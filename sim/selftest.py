"""Self-tests of the machinery itself.

determinism : every world, many seeds: same seed twice in one process, across worker counts, and in
              fresh interpreters under other PYTHONHASHSEED values -- all event digests must agree.
mutants     : sensitivity.  Each entry of /verif/mutants/catalogue.json (string replacement) and each
              /verif/seeded/<id>/patch.diff is applied to a scratch copy of the repository under
              /dev/shm (removed afterwards); the named property's check must exit 1 with a VIOLATION.
"""
import json
import os
import shutil
import subprocess
import sys
import time

import core

HERE = os.path.dirname(os.path.abspath(__file__))
VERIF = os.path.dirname(HERE)
PY = sys.executable
SCRATCH = "/dev/shm"


def out(*a):
    print(*a, file=sys.__stdout__, flush=True)


# ------------------------------------------------------------------------------------ determinism


def _digests(world_props, seeds, workers):
    specs = []
    for (w, p) in world_props:
        for s in seeds:
            specs.append((w, p, "quick", s, 0, False, None))
    rs = core.run_batch(specs, workers=workers)
    for r in rs:
        if r.get("status") != "ok":
            raise core.HarnessError("determinism run failed: " + str(r.get("error")))
    return [r["digest"] for r in rs]


def determinism(argv):
    import plans
    n = int(argv[0]) if argv else 200
    if "--child" in argv:
        wp = json.loads(os.environ["DET_WP"])
        seeds = list(range(n))
        print(json.dumps(_digests([tuple(x) for x in wp], seeds, 1 if "--w1" in argv else 4)))
        return 0
    wp = sorted({(st["world"], p) for p, pl in plans.PLANS.items() for st in pl["stages"] if "world" in st})
    # one property per world is enough for the digest comparison, but keep all (cheap)
    seeds = list(range(n))
    t0 = time.time()
    a = _digests(wp, seeds, 1)
    b = _digests(wp, seeds, 16)
    c = _digests(wp, seeds, 4)
    bad = sum(1 for x, y, z in zip(a, b, c) if not (x == y == z))
    out("in-process vs 16 workers vs 4 workers: %d runs, %d mismatches" % (len(a), bad))
    for hs in ("0", "12345", "random"):
        env = dict(os.environ, PYTHONHASHSEED=hs, DET_WP=json.dumps(wp))
        p = subprocess.run([PY, os.path.join(HERE, "check.py"), "selftest-determinism", str(n), "--child"],
                           capture_output=True, text=True, env=env, timeout=3600)
        if p.returncode != 0:
            out("child failed:", p.stderr[-2000:])
            return 3
        d = json.loads(p.stdout.strip().splitlines()[-1])
        m = sum(1 for x, y in zip(a, d) if x != y)
        out("fresh interpreter PYTHONHASHSEED=%s: %d mismatches" % (hs, m))
        bad += m
    out("determinism self-test: %s (%d worlds x %d seeds, %.1fs)" % ("OK" if not bad else "FAILED", len(wp), n, time.time() - t0))
    return 0 if not bad else 3


# ------------------------------------------------------------------------------------ mutants


def make_copy(tag):
    dst = os.path.join(SCRATCH, "cct-mut-%s-%d" % (tag, os.getpid()))
    if os.path.exists(dst):
        shutil.rmtree(dst)
    shutil.copytree("/repo", dst, ignore=shutil.ignore_patterns(".git", "__pycache__", ".benchmarks", "*.pyc"))
    return dst


def apply_mutant(dst, m):
    if "patch" in m:
        p = subprocess.run(["patch", "-p1", "-s", "-d", dst, "-i", m["patch"]], capture_output=True, text=True)
        if p.returncode != 0:
            raise core.HarnessError("patch failed for %s: %s" % (m["id"], p.stdout + p.stderr))
        return
    for ed in m["edits"]:
        path = os.path.join(dst, ed["file"])
        s = open(path, encoding="utf-8").read()
        cnt = s.count(ed["old"])
        if cnt != ed.get("count", 1):
            raise core.HarnessError("mutant %s: %r occurs %d times in %s" % (m["id"], ed["old"][:60], cnt, ed["file"]))
        s = s.replace(ed["old"], ed["new"])
        open(path, "w", encoding="utf-8").write(s)


def baseline_ok(dst):
    """The pinned suite must still pass on the mutated copy (all stable_pass tests)."""
    base = json.load(open("/root/.vp/BASELINE.json"))
    xml = os.path.join(dst, "junit.xml")
    env = dict(os.environ, PYTHONPATH=dst, PYTHONDONTWRITEBYTECODE="1")
    subprocess.run([PY, "-m", "pytest", "-q", "-p", "no:cacheprovider", "--timeout=900",
                    "--continue-on-collection-errors", "--benchmark-disable", "--junitxml=" + xml],
                   cwd=dst, capture_output=True, text=True, env=env, timeout=1800)
    import xml.etree.ElementTree as ET
    passed = set()
    try:
        for tc in ET.parse(xml).getroot().iter("testcase"):
            if not list(tc):
                passed.add(tc.get("classname") + "::" + tc.get("name"))
    except Exception as e:
        return False, ["junit unreadable: %r" % e]
    missing = [t for t in base["stable_pass"] if t not in passed]
    return not missing, missing


def load_catalogue():
    ms = []
    cat = os.path.join(VERIF, "mutants", "catalogue.json")
    if os.path.exists(cat):
        for m in json.load(open(cat)):
            m["source"] = "catalogue"
            ms.append(m)
    sd = os.path.join(VERIF, "seeded")
    if os.path.isdir(sd):
        for d in sorted(os.listdir(sd)):
            meta = os.path.join(sd, d, "meta.json")
            pf = os.path.join(sd, d, "patch.diff")
            if os.path.exists(meta) and os.path.exists(pf):
                mj = json.load(open(meta))
                ms.append({"id": "seeded/" + d, "property": mj["property"], "patch": pf, "source": "seeded",
                           "also": mj.get("also_detected_by", []), "note": mj.get("needs", "")})
    return ms


def benign(argv):
    """False-alarm self-test: behaviour-preserving refactorings of the library (benign/catalogue.json) must pass every
    check (exit 0) - and the pinned suite."""
    ids = [a for a in argv if not a.startswith("--")]
    props = [a[8:].split(",") for a in argv if a.startswith("--props=")]
    import plans
    props = props[0] if props else sorted(plans.PLANS)
    cat = json.load(open(os.path.join(VERIF, "benign", "catalogue.json")))
    ad = os.path.join(VERIF, "benign", "agents")
    if os.path.isdir(ad):
        for fn in sorted(os.listdir(ad)):
            if fn.endswith(".diff"):
                cat.append({"id": "agent-" + fn[:-5], "patch": os.path.join(ad, fn), "note": "independent behaviour-preserving refactoring"})
    if ids:
        cat = [m for m in cat if any(m["id"].startswith(i) for i in ids)]
    bad = []
    for m in cat:
        dst = make_copy(m["id"])
        try:
            apply_mutant(dst, m)
            ok, missing = baseline_ok(dst) if "--with-tests" in argv else (True, [])
            alarms = []
            t0 = time.time()
            for p in props:
                env = dict(os.environ, VERIF_REPO=dst, VERIF_EVIDENCE_DIR=os.path.join(dst, "_evidence"), VERIF_OUT_DIR=os.path.join(dst, "_out"))
                r = subprocess.run([PY, os.path.join(HERE, "check.py"), p, "quick"], capture_output=True, text=True, env=env, timeout=7200)
                if r.returncode != 0:
                    alarms.append("%s:rc%d" % (p, r.returncode))
                    out(r.stdout[-800:])
            out("%-8s %-28s alarms=%s tests=%s %.0fs" % ("QUIET" if not alarms else "ALARM", m["id"], ",".join(alarms) or "-", "pass" if ok else "FAIL%r" % missing[:2], time.time() - t0))
            if alarms or not ok:
                bad.append(m["id"])
        finally:
            shutil.rmtree(dst, ignore_errors=True)
    out("benign: %d/%d quiet; not quiet: %s" % (len(cat) - len(bad), len(cat), bad))
    return 0 if not bad else 3


def mutants(argv):
    with_tests = "--with-tests" in argv
    tier = "thorough" if "--thorough" in argv else "quick"
    ids = [a for a in argv if not a.startswith("--")]
    seeds = [a[8:].split(",") for a in argv if a.startswith("--seeds=")]
    seeds = seeds[0] if seeds else [os.environ.get("VERIF_SEED", "0")]
    ms = load_catalogue()
    if ids:
        ms = [m for m in ms if any(m["id"] == i or m["id"].startswith(i) or m["property"] == i for i in ids)]
    results = []
    for m in ms:
        dst = make_copy(m["id"].replace("/", "_"))
        try:
            apply_mutant(dst, m)
            tests = None
            if with_tests:
                ok, missing = baseline_ok(dst)
                tests = "pass" if ok else "FAIL(%s)" % ",".join(missing[:3])
            props = [m["property"]] if isinstance(m["property"], str) else list(m["property"])
            caught = []
            t0 = time.time()
            per_seed = []
            for sd in seeds:
                hit = False
                for p in props:
                    env = dict(os.environ, VERIF_REPO=dst, VERIF_EVIDENCE_DIR=os.path.join(dst, "_evidence"),
                               VERIF_OUT_DIR=os.path.join(dst, "_out"), VERIF_SEED=str(sd))
                    r = subprocess.run([PY, os.path.join(HERE, "check.py"), p, tier], capture_output=True, text=True,
                                       env=env, timeout=7200)
                    if r.returncode == 1 and "VIOLATION property=%s" % p in r.stdout:
                        caught.append(p)
                        hit = True
                    elif r.returncode not in (0, 1):
                        caught.append(p + ":rc%d" % r.returncode)
                        out(r.stdout[-1500:])
                per_seed.append(hit)
            dt = time.time() - t0
            status = "CAUGHT" if all(per_seed) else ("PARTIAL(%d/%d seeds)" % (sum(per_seed), len(per_seed)) if any(per_seed) else "MISSED")
            caught = sorted(set(caught))
            out("%-7s %-44s %-10s by=%s tests=%s %.0fs" % (status, m["id"], ",".join(props), ",".join(caught) or "-", tests, dt))
            results.append((m["id"], status))
        finally:
            shutil.rmtree(dst, ignore_errors=True)
    missed = [i + ("" if s == "MISSED" else " " + s) for i, s in results if s != "CAUGHT"]
    out("mutants: %d/%d caught; missed: %s" % (len(results) - len(missed), len(results), missed))
    return 0 if not missed else 3
