"""OpenPGP (RFC 4880) packet parsing and a real-GnuPG back end.

This module is what stands in for `securesystemslib.gpg.functions` (not installed, not in the wheelhouse):
create_signature(content, keyid) and export_pubkey(keyid) with the same return shapes, implemented by
running the real `gpg` binary in a scratch GNUPGHOME and parsing its packets here (hashlib/struct only).

RealGpg keeps one scratch home per process under /dev/shm (removed at exit); the clock GnuPG sees is
`--faked-system-time <simulated epoch>!`.
"""
import atexit
import os
import shutil
import subprocess

GPG = shutil.which("gpg")
ED25519_OID = bytes.fromhex("2b06010401da470f01")


class GpgError(Exception):
    pass


def _packets(data):
    """Yield (tag, body) for each OpenPGP packet in data (old and new formats, definite lengths)."""
    i = 0
    n = len(data)
    while i < n:
        c = data[i]
        if not c & 0x80:
            raise GpgError("not an OpenPGP packet")
        i += 1
        if c & 0x40:                      # new format
            tag = c & 0x3F
            l0 = data[i]
            if l0 < 192:
                ln = l0
                i += 1
            elif l0 < 224:
                ln = ((l0 - 192) << 8) + data[i + 1] + 192
                i += 2
            elif l0 == 255:
                ln = int.from_bytes(data[i + 1:i + 5], "big")
                i += 5
            else:
                raise GpgError("partial body lengths not supported")
        else:                             # old format
            tag = (c >> 2) & 0x0F
            lt = c & 3
            if lt == 0:
                ln = data[i]
                i += 1
            elif lt == 1:
                ln = int.from_bytes(data[i:i + 2], "big")
                i += 2
            elif lt == 2:
                ln = int.from_bytes(data[i:i + 4], "big")
                i += 4
            else:
                ln = n - i
        yield tag, data[i:i + ln]
        i += ln


def _mpi(buf, i):
    bits = int.from_bytes(buf[i:i + 2], "big")
    nbytes = (bits + 7) // 8
    return int.from_bytes(buf[i + 2:i + 2 + nbytes], "big"), i + 2 + nbytes


def parse_signature(data):
    """Detached v4 EdDSA signature packet -> {'other_headers': hex, 'signature': hex, 'hash_algo': n}.
    other_headers = version .. end of the hashed subpackets (what RFC 4880 5.2.4 hashes after the data)."""
    for tag, body in _packets(data):
        if tag != 2:
            continue
        if body[0] != 4:
            raise GpgError("only v4 signatures")
        pkalgo, halgo = body[2], body[3]
        hl = int.from_bytes(body[4:6], "big")
        headers = body[:6 + hl]
        i = 6 + hl
        ul = int.from_bytes(body[i:i + 2], "big")
        i += 2 + ul
        i += 2                            # left 16 bits of the hash
        if pkalgo != 22:
            raise GpgError("not an EdDSA signature (algo %d)" % pkalgo)
        r, i = _mpi(body, i)
        s, i = _mpi(body, i)
        return {"other_headers": headers.hex(), "signature": (r.to_bytes(32, "big") + s.to_bytes(32, "big")).hex(),
                "hash_algo": halgo}
    raise GpgError("no signature packet")


def parse_pubkey(data):
    """First EdDSA public-key packet of an export -> (q hex, creation time, fingerprint hex)."""
    import hashlib
    for tag, body in _packets(data):
        if tag not in (6, 14):
            continue
        if body[0] != 4:
            continue
        created = int.from_bytes(body[1:5], "big")
        algo = body[5]
        if algo != 22:
            continue
        ol = body[6]
        oid = body[7:7 + ol]
        if oid != ED25519_OID:
            continue
        q, _ = _mpi(body, 7 + ol)
        qb = q.to_bytes(33, "big")
        if qb[0] != 0x40:
            raise GpgError("unexpected EdDSA point encoding")
        fpr = hashlib.sha1(b"\x99" + len(body).to_bytes(2, "big") + body).hexdigest()
        return qb[1:].hex(), created, fpr
    raise GpgError("no ed25519 public key packet")


class RealGpg:
    """One scratch GNUPGHOME per process.  Deterministic: fixed keys, faked system time."""

    _inst = None

    @classmethod
    def get(cls, repo):
        if cls._inst is None or cls._inst.pid != os.getpid():
            cls._inst = cls(repo)
        return cls._inst

    def __init__(self, repo, home=None):
        self.pid = os.getpid()
        self.ok = False
        self.reason = ""
        self.keys = []          # [{"fpr":, "q":}]
        self.time = 1700000000
        if not GPG:
            self.reason = "gpg binary not found"
            return
        self.home = home or "/dev/shm/cct-gnupg-%d" % self.pid
        own = home is None
        if own:
            shutil.rmtree(self.home, ignore_errors=True)
            os.makedirs(self.home, mode=0o700)
            atexit.register(self.cleanup)
            try:   # multiprocessing children leave through os._exit: atexit does not run there, finalizers do
                from multiprocessing import util as _mpu
                _mpu.Finalize(None, self.cleanup, exitpriority=5)
            except Exception:
                pass
        try:
            td = os.path.join(repo, "tests", "testdata")
            if own:
                extra = os.path.join(os.path.dirname(os.path.abspath(__file__)), "gpgkeys")
                files = [os.path.join(td, fn) for fn in sorted(os.listdir(td))] if os.path.isdir(td) else []
                files += [os.path.join(extra, fn) for fn in sorted(os.listdir(extra))] if os.path.isdir(extra) else []
                for fn in files:
                    if fn.endswith(".pri.asc"):
                        p = self._run(["--import", fn], faketime=False)
                        if p.returncode != 0:
                            raise GpgError("import failed: " + p.stderr.decode("utf-8", "replace")[-200:])
            p = self._run(["--list-secret-keys", "--with-colons"], faketime=False)
            for line in p.stdout.decode().splitlines():
                f = line.split(":")
                if f[0] == "fpr" and len(self.keys) < 8:
                    fpr = f[9].lower()
                    if fpr not in [k["fpr"] for k in self.keys]:
                        e = self._run(["--export", fpr], faketime=False)
                        try:
                            q, created, fp2 = parse_pubkey(e.stdout)
                        except GpgError:
                            continue
                        if fp2 == fpr:
                            self.keys.append({"fpr": fpr, "q": q})
            if not self.keys:
                raise GpgError("no ed25519 secret keys available")
            self.keys.sort(key=lambda k: k["fpr"])
            probe = self.create_signature(b"probe", self.keys[0]["fpr"])
            if len(probe["signature"]) != 128:
                raise GpgError("probe signature malformed")
            self.ok = True
        except (GpgError, OSError, subprocess.SubprocessError) as e:
            self.reason = "gpg unusable: %s" % (e,)

    def _run(self, args, data=None, faketime=True):
        cmd = [GPG, "--homedir", self.home, "--batch", "--no-tty", "--quiet", "--no-autostart" if False else "--no-greeting"]
        if faketime:
            cmd += ["--faked-system-time", "%d!" % self.time, "--ignore-time-conflict"]
        cmd += ["--pinentry-mode", "loopback", "--passphrase", ""]
        env = {"PATH": os.environ.get("PATH", "/usr/bin:/bin"), "HOME": self.home, "LC_ALL": "C", "GNUPGHOME": self.home}
        return subprocess.run(cmd + args, input=data, capture_output=True, env=env, timeout=60)

    # ---- the securesystemslib.gpg.functions interface ----------------------------------
    def create_signature(self, content, keyid=None, homedir=None):
        if not isinstance(keyid, str) or len(keyid) != 40:
            raise ValueError("bad keyid")
        p = self._run(["--local-user", keyid, "--detach-sign", "--digest-algo", "SHA256"], bytes(content))
        if p.returncode != 0:
            # securesystemslib raises its CommandError (a ValueError subclass in 0.13.1's exceptions? no: Exception);
            # the library documents ValueError/TypeError/ImportError from this path; keep it a ValueError.
            raise ValueError("gpg signing failed: " + p.stderr.decode("utf-8", "replace")[-200:])
        sig = parse_signature(p.stdout)
        if sig["hash_algo"] != 8:
            raise ValueError("gpg did not use SHA-256")
        return {"keyid": keyid.lower(), "other_headers": sig["other_headers"], "signature": sig["signature"]}

    def export_pubkey(self, keyid, homedir=None):
        p = self._run(["--export", keyid], faketime=False)
        if p.returncode != 0 or not p.stdout:
            raise KeyError("gpg: key %s not found" % keyid)
        q, created, fpr = parse_pubkey(p.stdout)
        return {"type": "eddsa", "method": "pgp+eddsa-ed25519", "hashes": ["pgp+SHA2"], "creation_time": created,
                "keyid": fpr, "keyval": {"private": "", "public": {"q": q}}}

    def cleanup(self):
        if os.getpid() != self.pid:
            return
        try:
            subprocess.run(["gpgconf", "--homedir", self.home, "--kill", "gpg-agent"], capture_output=True, timeout=20)
        except (OSError, subprocess.SubprocessError):
            pass
        shutil.rmtree(self.home, ignore_errors=True)


def sweep_stale_homes():
    """Remove scratch GNUPGHOMEs (and their agents) left by processes that no longer exist."""
    base = "/dev/shm"
    for d in os.listdir(base):
        if d.startswith("cct-gnupg-"):
            try:
                pid = int(d.split("-")[-1])
            except ValueError:
                continue
            if pid != os.getpid() and not os.path.exists("/proc/%d" % pid):
                h = os.path.join(base, d)
                try:
                    subprocess.run(["gpgconf", "--homedir", h, "--kill", "gpg-agent"], capture_output=True, timeout=20)
                except (OSError, subprocess.SubprocessError):
                    pass
                shutil.rmtree(h, ignore_errors=True)


if __name__ == "__main__":
    import sys
    import time
    g = RealGpg("/repo")
    print("ok:", g.ok, g.reason, g.keys)
    if g.ok:
        t = time.time()
        a = g.create_signature(b"hello", g.keys[0]["fpr"])
        b = g.create_signature(b"hello", g.keys[0]["fpr"])
        print(a, a == b, round(time.time() - t, 3))
        sys.path.insert(0, os.path.dirname(os.path.abspath(__file__)))
        import rfc8032
        from refmodel import pgp_digest
        print("independent verify:", rfc8032.verify(bytes.fromhex(g.keys[0]["q"]), pgp_digest(b"hello", bytes.fromhex(a["other_headers"])),
                                                   bytes.fromhex(a["signature"])))
        print(g.export_pubkey(g.keys[0]["fpr"]))
    g.cleanup()
