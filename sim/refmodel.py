"""Reference models (oracles).  hashlib / struct / big ints only -- never imports `cryptography`
and never imports the library under test.

* refcanon(v)      reference canonical serializer written from the published wire format
* snapshot(v)      deep typed snapshot (types, values, dict insertion order) for immutability checks
* typed_eq(a, b)   "equal as JSON values" (int != float != bool, NaN == NaN, dict order ignored)
* grammar helpers  ref_is_hex_key / ref_is_raw_entry / ref_is_pgp_entry
* Ledger           record of every signature really made in a run
* model_count      number of distinct authorised keys with a ledger-backed entry filed under them
* pgp_digest       SHA-256(data || headers || 04 FF || be32(len(headers)))
"""
import hashlib
import math
import re
import struct
from fractions import Fraction

import rfc8032

HEX = "0123456789abcdef"
_HEXSET = frozenset(HEX)

# ------------------------------------------------------------------ canonical serializer

_ESC = {0x22: '\\"', 0x5C: "\\\\", 0x0A: "\\n", 0x0D: "\\r", 0x09: "\\t", 0x08: "\\b", 0x0C: "\\f"}
_FLOAT_RE = re.compile(r"^-?(\d+\.\d+|\d+(\.\d+)?e[+-]\d{2,3})$")


def _str(s):
    out = ['"']
    for ch in s:
        c = ord(ch)
        e = _ESC.get(c)
        if e is not None:
            out.append(e)
        elif 0x20 <= c <= 0x7E:
            out.append(ch)
        elif c <= 0xFFFF:
            out.append("\\u%04x" % c)
        else:
            c -= 0x10000
            out.append("\\u%04x\\u%04x" % (0xD800 | (c >> 10), 0xDC00 | (c & 0x3FF)))
    out.append('"')
    return "".join(out)


def float_text(x):
    """Wire spelling of a float: shortest round-trip digits, Python exponent spelling."""
    if x != x:
        return "NaN"
    if x == math.inf:
        return "Infinity"
    if x == -math.inf:
        return "-Infinity"
    s = float.__repr__(x)
    # sanity of the spelling itself (not merely trusting repr): round-trips, has the pinned shape,
    # and no spelling with fewer significant digits round-trips.
    if float(s) != x or not _FLOAT_RE.match(s):
        raise AssertionError("unexpected float spelling %r" % s)
    return s


def _ser(v, level, out):
    t = type(v)
    # containers handed over in subclasses (OrderedDict, defaultdict, a list subclass) are the same JSON value; scalars stay strict
    if t is not dict and isinstance(v, dict):
        t = dict
    elif t is not list and t is not tuple and isinstance(v, (list, tuple)):
        t = list
    if v is None:
        out.append("null")
    elif t is bool:
        out.append("true" if v else "false")
    elif t is int:
        out.append(int.__repr__(v))
    elif t is float:
        out.append(float_text(v))
    elif t is str:
        out.append(_str(v))
    elif t is dict:
        if not v:
            out.append("{}")
            return
        for k in v:
            if type(k) is not str:
                raise TypeError("refcanon: object keys must be strings")
        ind = "  " * (level + 1)
        out.append("{\n")
        first = True
        for k in sorted(v):
            if not first:
                out.append(",\n")
            first = False
            out.append(ind)
            out.append(_str(k))
            out.append(": ")
            _ser(v[k], level + 1, out)
        out.append("\n" + "  " * level + "}")
    elif t is list or t is tuple:
        if not v:
            out.append("[]")
            return
        ind = "  " * (level + 1)
        out.append("[\n")
        first = True
        for x in v:
            if not first:
                out.append(",\n")
            first = False
            out.append(ind)
            _ser(x, level + 1, out)
        out.append("\n" + "  " * level + "]")
    else:
        raise TypeError("refcanon: not a JSON value: %r" % (t,))


def refcanon(v):
    out = []
    _ser(v, 0, out)
    return "".join(out).encode("ascii")


def payload_hash(v):
    return hashlib.sha256(refcanon(v)).hexdigest()


# ------------------------------------------------------------------ snapshots / equality


def snapshot(v):
    """Deep typed snapshot; captures exact types, values and dict insertion order."""
    t = type(v)
    if t is dict:
        return ("d", tuple((snapshot(k), snapshot(x)) for k, x in v.items()))
    if t is list:
        return ("l", tuple(snapshot(x) for x in v))
    if t is tuple:
        return ("t", tuple(snapshot(x) for x in v))
    if t is float:
        return ("f", float.__repr__(v))
    if t is bool:
        return ("b", v)
    if t is int:
        return ("i", v)
    if t is str:
        return ("s", v)
    if v is None:
        return ("n",)
    if t is bytes or t is bytearray:
        return ("y", bytes(v))
    return ("o", id(v), t.__name__)


def typed_eq(a, b):
    ta, tb = type(a), type(b)
    if isinstance(a, (tuple, list)):
        ta = list
    elif isinstance(a, dict):
        ta = dict
    if isinstance(b, (tuple, list)):
        tb = list
    elif isinstance(b, dict):
        tb = dict
    if ta is not tb:
        return False
    if ta is dict:
        if len(a) != len(b):
            return False
        for k in a:
            if k not in b or not typed_eq(a[k], b[k]):
                return False
        return True
    if ta is list:
        return len(a) == len(b) and all(typed_eq(x, y) for x, y in zip(a, b))
    if ta is float:
        return float.__repr__(a) == float.__repr__(b)
    return a == b


# ------------------------------------------------------------------ grammars used by the models


def ref_is_hex(s, n=None):
    if type(s) is not str or not s or len(s) % 2:
        return False
    if n is not None and len(s) != n:
        return False
    return all(c in _HEXSET for c in s)


def ref_is_hex_key(s):
    return ref_is_hex(s, 64)


def ref_is_pgp_entry(e):
    if type(e) is not dict:
        return False
    ks = set(e)
    if ks != {"other_headers", "signature"} and ks != {"other_headers", "signature", "see_also"}:
        return False
    if not ref_is_hex(e["other_headers"]) or not ref_is_hex(e["signature"], 128):
        return False
    if "see_also" in e and not ref_is_hex(e["see_also"], 40):
        return False
    return True


def ref_is_raw_entry(e):
    """Shape admitted in raw mode: {'signature': 128 hex} or the OpenPGP shape (the code reads only
    ['signature'] in raw mode; soundness is stated over that)."""
    if type(e) is not dict:
        return False
    if set(e) == {"signature"}:
        return ref_is_hex(e["signature"], 128)
    return ref_is_pgp_entry(e)


# ------------------------------------------------------------------ OpenPGP digest


def pgp_digest(data, headers):
    return hashlib.sha256(data + headers + b"\x04\xff" + struct.pack(">I", len(headers))).digest()


# ------------------------------------------------------------------ ledger


class Ledger:
    """Every signature really made in the run, by anyone, with the key that made it."""

    def __init__(self):
        self.raw = set()   # (pub_hex, payload_hash, sig_hex)
        self.pgp = set()   # (pub_hex, payload_hash, headers_hex, sig_hex)
        self.n = 0

    def record_raw(self, pub_hex, phash, sig_hex):
        self.raw.add((pub_hex, phash, sig_hex))
        self.n += 1

    def record_pgp(self, pub_hex, phash, headers_hex, sig_hex):
        self.pgp.add((pub_hex, phash, headers_hex, sig_hex))
        self.n += 1

    def entry_valid(self, key, phash, entry, gpg):
        """Does the ledger back `entry` filed under `key` for the payload with hash `phash`?"""
        if gpg:
            if not ref_is_pgp_entry(entry):
                return False
            return (key, phash, entry["other_headers"], entry["signature"]) in self.pgp
        if not ref_is_raw_entry(entry):
            return False
        return (key, phash, entry["signature"]) in self.raw


def counted_keys(ledger, payload, sigmap, authorised, gpg, phash=None):
    """Sorted list of distinct authorised key strings that have a ledger-backed entry filed under
    exactly that string."""
    if phash is None:
        phash = payload_hash(payload)
    out = []
    for k in sorted(set(authorised)):
        if k in sigmap and ledger.entry_valid(k, phash, sigmap[k], gpg):
            out.append(k)
    return out


def independent_entry_valid(key, payload, entry, gpg):
    """Tie-breaker: judge one entry with the independent ed25519 over reference bytes."""
    if not ref_is_hex_key(key):
        return False
    data = refcanon(payload)
    if gpg:
        if not ref_is_pgp_entry(entry):
            return False
        msg = pgp_digest(data, bytes.fromhex(entry["other_headers"]))
    else:
        if not ref_is_raw_entry(entry):
            return False
        msg = data
    return rfc8032.verify(bytes.fromhex(key), msg, bytes.fromhex(entry["signature"]))


def threshold_ok(t):
    return isinstance(t, int) and t >= 1


def keylist_ok(keys):
    return type(keys) is list and all(ref_is_hex_key(k) for k in keys)


def version_successor(tv, nv):
    """Exact-arithmetic 'nv == tv + 1' for ints / floats (bools are ints in Python)."""
    try:
        if isinstance(tv, float) and (tv != tv or tv in (math.inf, -math.inf)):
            return False
        if isinstance(nv, float) and (nv != nv or nv in (math.inf, -math.inf)):
            return False
        return Fraction(nv) == Fraction(tv) + 1
    except (TypeError, ValueError, OverflowError):
        return False


# ------------------------------------------------------------------ dates
# Documented form: YYYY-MM-DDTHH:MM:SSZ naming an existing instant.  The standard parser (strptime with that format) admits
# a superset of it (unpadded fields, lower-case letters, other decimal digits).  Strings in the documented form are valid,
# strings the standard parser refuses are invalid, the zone between is unspecified and never judged.
_DATE_RE = re.compile(r"[0-9]{4}-[0-9]{2}-[0-9]{2}T[0-9]{2}:[0-9]{2}:[0-9]{2}Z")


def date_status(v):
    """'valid' | 'invalid' | 'unspecified'"""
    import datetime as _dt
    if type(v) is not str:
        return "invalid"
    try:
        _dt.datetime.strptime(v, "%Y-%m-%dT%H:%M:%SZ")
    except ValueError:
        return "invalid"
    return "valid" if _DATE_RE.fullmatch(v) else "unspecified"
