"""Texts for MANIFEST.json (level claims, notes) - kept next to plans.py; gen_manifest.py merges both."""

TEXT = {
    "C05": ("exploration", "verify_delegation verdicts over simulated multi-role delegation histories (trusted documents with 1-4 roles and "
            "overlapping key sets, untrusted metadata listing its own keys, sibling-role signers, near-miss role names, malformed trusted "
            "side, channel faults) compared in both directions with a delegation model fed by the ledger; error class checked when "
            "exactly one defect is present.",
            "Stateless decision; the simulator contributes the history-derived ground truth and fault-shaped inputs. Well-formedness is "
            "delegated to the library's checker (C14 not claimed).", "sec. 7 C05"),
    "C06": ("exploration", "The attacker is a transport that rewrites only the unsigned part: at every accepting verifier call the envelope "
            "stripped to its ledger-valid authorised entries is re-verified (must accept), and any envelope whose signed portion alone is "
            "well-formed delegating metadata of another type must be rejected whatever the signature map holds.",
            "Same worlds as C05/C01; 'well-formed delegating metadata' is judged by the library's checker on the signed portion alone.",
            "sec. 7 C06"),
    "C07": ("exploration", "Determinism decided by simulation over process configurations: a seeded corpus is serialized in fresh interpreters "
            "under seeded hash seed x locale x UTF-8 mode x IO encoding x TZ x cwd x -O and all digests must agree with each other and "
            "with a 50-line reference serializer written from the published format; order independence, parse/serialize fixpoint and "
            "injectivity are monitored on every corpus value and on every payload crossing the other worlds.",
            "The format/injectivity half is input checking riding along (said plainly); float digits come from float.__repr__ with "
            "independent sanity checks; integers bounded by the interpreter's 4300-digit limit.", "sec. 7 C07"),
    "C08": ("exploration", "Histories of write / load / add-signature (raw and GPG path) / re-sign / load-write cycles on a simulated file "
            "system with a strict oracle (bytes = reference canonical bytes, typed equality, verdict vectors for every key and threshold "
            "before = after, pre-existing entries byte-identical) and, in a separate configuration, I/O errors, short reads/writes, crash "
            "before close and flipped stored bits under the relaxed oracle old / new / unparsable.",
            "Durability of a real file system is approximated (no fsync in the library: a crash leaves old, empty or prefix).", "sec. 7 C08"),
    "C10": ("exploration", "OpenPGP-mode world with the real gpg binary as a peer (six ed25519 OpenPGP keys, faked system time = simulated "
            "clock) reached through the library's own signing path, plus SimGPG with arbitrary header strings; every verify_gpg_signature / "
            "verify_signable(gpg=True) verdict is compared with the RFC 4880 v4 reference digest + ledger, tie-broken by an independent "
            "RFC 8032 verifier; exhaustive single-bit sweeps over signature, headers, key and payload window.",
            "securesystemslib is a stub (harness packet parser in front of real gpg); if gpg is unusable the leg is skipped with a note.",
            "sec. 7 C10"),
    "C11": ("exploration", "Repository-side in-place signing histories on the simulated disk (several on-disk formats, stale signature sections, "
            "re-sign, re-key, add/remove/edit artifacts, near-duplicate records, malformed documents, library and CLI entry) followed by the "
            "client path root -> key_mgr -> pkg_mgr through verify_delegation for every artifact, a metadata-swap attack, and an "
            "independent RFC 8032 check of stored signatures.",
            "Artifact names distinct across the two sections (the property's precondition); records that are themselves delegating "
            "metadata of another type are expected to be rejected (C06) and excluded from completeness.", "sec. 7 C11"),
    "C12": ("exploration", "Thread world: real threads parked and released one at a time by a seeded baton scheduler with pre-emption at every "
            "traced line inside the library, shared pool with related inputs, every outcome compared with the call evaluated alone on a "
            "reset library state; single-thread histories with repeats; fresh-interpreter configuration leg (pre-imports, stdout encodings, "
            "hash seeds, library first imported under a capture of the standard streams); deep argument snapshots around every verifier/validator "
            "call in the other worlds; wrap aliasing probes; in a third of the envelope / chain / delegation runs every library call is also "
            "made by a forked copy of the process on freshly imported library state and the two outcomes must agree.",
            "Pre-emption granularity is the traced line (opcode events are not replay-stable under the adaptive interpreter and were "
            "dropped); a thread switch inside one source line or inside a C call is not modelled.  Of the independent seeded changes, "
            "seeded/C13-C (eviction race of a 128-entry cache inside one line) escapes and seeded/C12-H (512-entry cache, window between "
            "two lines) is found by about half of the seeds in the quick tier.", "sec. 7 C12, 13.8, 13.13"),
    "C17": ("exploration", "Real processes for each entry point (console script, python -m conda_content_trust, python -m "
            "conda_content_trust.cli) x file pairs drawn from simulated histories (valid successors, key_mgr under root, every "
            "attack-catalogue document, key_mgr documents delegating other role names, raw- and OpenPGP-signed documents of every declared "
            "type, malformed / empty / missing / directory / BOM files, paths through symlinks and '..') x seeded environments; exit status "
            "and success line compared with the in-process library verdict on the same files; sign-artifacts with good and unusable keys, "
            "on files signed before and patched, under a file-size limit.",
            "An unwritable stdout is out of scope. gpg-sign / gpg-key-lookup run as real processes against a stand-in securesystemslib package "
            "(harness OpenPGP packet parser + the real gpg binary) put on PYTHONPATH, and without it (must exit non-zero, file unchanged).",
            "sec. 7 C17"),
    "C18": ("fault_enumeration", "Per scenario, exhaustive enumeration of fault points before the output phase: an exception at every line "
            "event executed inside library frames, an I/O error or short read at every file-system operation, a failure of every "
            "callee-seam call (signing device per artifact, GnuPG create_signature / export_pubkey, optional dependency absent), plus "
            "malformed inputs and bad keys; after every failed call the target's bytes must be identical, and on every run the event "
            "order computed -> serialized -> opened -> written -> closed must hold; whatever the code does on the opened output before its "
            "first write (taking a lock ...) is a judged fault point too. Scenarios themselves (documents, keys, target names, stale siblings) "
            "are sampled.",
            "Line-event granularity; faults inside C extensions are represented at the calling line and by the callee seams; "
            "output-phase faults are outside the property's wording and only counted.", "sec. 7 C18"),
}

NA = [
    {"property_id": "C14", "reason": "exact accept-set of a pure one-argument predicate (the delegating-metadata checker): no schedule, clock, "
     "I/O, fault or history can influence or witness it, so deterministic simulation has nothing to decide (DESIGN.md section 2); it is "
     "exercised incidentally by every corrupted document and crashes are reported under C13"},
    {"property_id": "C15", "reason": "exact grammars of pure string/dict predicates and predicate/raiser agreement: a pure function of one input "
     "with no seam for a simulator to control; deciding it needs grammar-based or SMT input enumeration, a different technique (DESIGN.md section 2)"},
    {"property_id": "C19", "reason": "pure key conversions and RFC 8032 conformance over all seeds; the only I/O (toy key-file helpers) cannot "
     "decide it; an independent RFC 8032 implementation rides along in the worlds as signer/oracle, but the property itself is not decided "
     "(DESIGN.md section 2)"},
]

ENGINES = [
    {"name": "envelope", "path": "sim/world_envelope.py", "kind_free_text": "multi-signer envelope world, Byzantine channel, ledger oracle"},
    {"name": "chain", "path": "sim/world_chain.py", "kind_free_text": "root rotation histories: key holders, repository, attacker, network, clients with persisted roots, crash/restart"},
    {"name": "deleg", "path": "sim/world_deleg.py", "kind_free_text": "multi-role delegation world on top of the envelope world"},
    {"name": "storage", "path": "sim/world_storage.py", "kind_free_text": "simulated file system histories, I/O faults, crash, repodata signing + client path"},
    {"name": "inplace", "path": "sim/world_storage.py", "kind_free_text": "fault-point enumeration engine (settrace exception injection, SimFS fault plan, callee seams)"},
    {"name": "threads", "path": "sim/world_threads.py", "kind_free_text": "baton-passed real threads, line-level pre-emption, seeded schedule"},
    {"name": "canon", "path": "sim/world_process.py", "kind_free_text": "fresh interpreters under seeded configurations serialising a seeded corpus"},
    {"name": "config", "path": "sim/world_process.py", "kind_free_text": "verdict vectors in fresh interpreters under pre-import sets and stdout encodings"},
    {"name": "cli", "path": "sim/world_process.py", "kind_free_text": "real CLI processes for every entry point, oracle = in-process verdict"},
    {"name": "builder", "path": "sim/world_builder.py", "kind_free_text": "metadata constructors under a simulated clock moved between reads"},
    {"name": "validators", "path": "sim/world_validators.py", "kind_free_text": "defensive / confused client calling every public validator and verifier with corrupted arguments"},
    {"name": "pgp", "path": "sim/world_pgp.py", "kind_free_text": "OpenPGP-mode world with the real gpg binary as peer, bit sweeps"},
]
