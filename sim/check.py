#!/venv/bin/python
"""CLI of the simulator.

  check.py <Cxx> <quick|thorough>      run the property's check, write /verif/evidence/<Cxx>.json
  check.py --replay <file>             re-execute a replay file (exit 1 + VIOLATION line if it reproduces)
  check.py selftest-determinism [n]    same seed twice / across processes / other PYTHONHASHSEED
  check.py selftest-mutants [ids...]   sensitivity self-test against /verif/seeded and /verif/mutants

Exit status: 0 property held on everything explored; 1 VIOLATION; 3 HARNESS-ERROR (never 0, never a VIOLATION).
"""
import json
import os
import sys
import time

HERE = os.path.dirname(os.path.abspath(__file__))
if HERE not in sys.path:
    sys.path.insert(0, HERE)
sys.dont_write_bytecode = True

import core  # noqa: E402
from core import EXIT_HARNESS, EXIT_OK, EXIT_VIOLATION, HarnessError  # noqa: E402
import seams  # noqa: E402
import plans  # noqa: E402  (imports and registers all worlds)


def out(*a):
    print(*a, file=sys.__stdout__, flush=True)


def err(*a):
    print(*a, file=sys.__stderr__, flush=True)


def report_violation(prop, world, seed, res, repo):
    """Shrink, write the replay file, confirm it in a fresh interpreter, print the VIOLATION line."""
    v = res["violations"][0]
    vclass = (v["prop"], v["inv"], v["sig"])
    ops = res["ops"]
    wcls = core.WORLDS[world]
    if res.get("narrow_ops") and core._reproduces(world, prop, res["header"], res["narrow_ops"], vclass, res["run_seed"]):
        ops = res["narrow_ops"]
    if getattr(wcls, "shrinkable", True) and len(ops) > 1:
        try:
            ops = core.ddmin(world, prop, res["header"], ops, vclass, res["run_seed"],
                             budget_s=float(os.environ.get("VERIF_SHRINK_S", "30")))
            ops = core.simplify_ops(world, prop, res["header"], ops, vclass, res["run_seed"],
                                    budget_s=float(os.environ.get("VERIF_SIMPLIFY_S", "15")))
        except BaseException as e:  # shrinking is best effort
            err("shrink failed:", repr(e))
            ops = res["ops"]
    run = core._reproduces(world, prop, res["header"], ops, vclass, res["run_seed"])
    if run is None:
        ops = res["ops"]
        for _ in range(3):
            run = core._reproduces(world, prop, res["header"], ops, vclass, res["run_seed"])
            if run is not None:
                break
    if run is None:
        # The violation was observed against the real code (the recorded detail is the counterexample), but the
        # recorded operations do not reproduce it: the failing behaviour depends on state outside the simulator's
        # seams (object identity / allocator state, e.g. an id()-keyed cache).  Reported, unminimised, and said so.
        fake = core.Run(prop, world, res["run_seed"])
        fake.violations = [v]
        path, doc = core.write_replay(prop, world, seed, res, ops, fake, repo)
        doc["reproducible"] = False
        json.dump(doc, open(path, "w"), indent=1)
        out("  %s/%s: %s" % (v["prop"], v["inv"], v["detail"][:600]))
        out("  NOTE: observed in run %d (run_seed %d) but not reproducible from its operation list: the behaviour depends on "
            "state outside the simulator's control (object identity / allocator); trace kept unminimised" % (res["index"], res["run_seed"]))
        out("VIOLATION property=%s replay=%s" % (prop, path))
        return path
    path, doc = core.write_replay(prop, world, seed, res, ops, run, repo)
    ok, tail = core.verify_replay_fresh(path, doc["digest"])
    if not ok:
        ok, tail = core.verify_replay_fresh(path, doc["digest"])
    if not ok:
        # reproduced in this process but not in a fresh interpreter: the failing behaviour depends on interpreter
        # state outside the seams (object identity / allocator).  Harness nondeterminism is excluded separately by
        # selftest-determinism; the observation against the real code stands and is reported.
        doc["reproducible"] = "in-process only"
        json.dump(doc, open(path, "w"), indent=1)
        out("  NOTE: reproduces in-process but not in a fresh interpreter (depends on interpreter state outside the "
            "simulator's control, e.g. object identity)")
    out("  %s/%s: %s" % (v["prop"], v["inv"], v["detail"][:600]))
    out("  minimised from %d to %d operations; digest=%s" % (len(res["ops"]), len(ops), doc["digest"]))
    out("VIOLATION property=%s replay=%s" % (prop, path))
    return path


def run_regressions(prop):
    """Replay every committed regression trace of this property first.  On a repaired tree none
    reproduces; if one does, the defect is back."""
    hits = []
    d = core.REGRESSIONS
    if not os.path.isdir(d):
        return hits, 0
    n = 0
    for fn in sorted(os.listdir(d)):
        if not fn.startswith(prop + "-") or not fn.endswith(".json"):
            continue
        n += 1
        path = os.path.join(d, fn)
        doc = json.load(open(path))
        if doc["world"] not in core.WORLDS:
            continue
        try:
            rep, run, doc = core.replay_file(path)
        except BaseException as e:
            raise HarnessError("regression %s failed to execute: %r" % (fn, e))
        if rep:
            hits.append((path, run, doc))
    return hits, n


def check(prop, tier):
    t0 = time.time()
    seed = int(os.environ.get("VERIF_SEED", "0") or 0)
    plan = plans.PLANS.get(prop)
    if plan is None:
        err("no check registered for", prop)
        return EXIT_HARNESS
    lib = seams.load_library()
    repo = seams.REPO
    out("check %s tier=%s VERIF_SEED=%d repo=%s tree=%s" % (prop, tier, seed, repo, core.tree_fingerprint(repo)))
    known = core.Known()
    status = EXIT_OK
    n_viol = 0
    results = []
    extra = {"components": plan.get("components", {}), "truncated": False}
    cap = float(os.environ.get("VERIF_WALL_CAP_S", plan.get("cap_s", {}).get(tier, 3000 if tier == "thorough" else 400)))
    try:
        hits, nreg = run_regressions(prop)
        extra["regressions_replayed"] = nreg
        for path, run, doc in hits:
            n_viol += 1
            status = EXIT_VIOLATION
            out("  regression reproduces: %s" % doc.get("detail", "")[:400])
            out("VIOLATION property=%s replay=%s" % (prop, path))
        reported = set()
        harness_errors = []
        for stage in plan["stages"]:
            if "custom" in stage:
                rs = stage["custom"](prop, tier, seed, cap - (time.time() - t0))
            else:
                n = stage["runs"][tier]
                n = int(n * float(os.environ.get("VERIF_SCALE", "1")))
                rs = []
                slice_n = 2000 if tier == "thorough" else 20000      # the wall-clock cap is looked at between slices
                for base in range(0, n, slice_n):
                    if time.time() - t0 > cap:
                        extra["truncated"] = True
                        break
                    specs = [(stage["world"], prop, tier, seed, i, i < base + 2 and base == 0, stage.get("profile"))
                             for i in range(base, min(n, base + slice_n))]
                    rs.extend(core.run_batch(specs))
            results.extend(rs)
            for r in rs:
                if r.get("status") == "harness_error":
                    harness_errors.append("run %s/%d (run_seed %s) failed:\n%s" % (r["world"], r["index"], r["run_seed"], r["error"]))
            for r in rs:
                if r.get("violations"):
                    v = r["violations"][0]
                    key = (v["prop"], v["inv"], v["sig"])
                    if key in reported or len(reported) >= 3:
                        n_viol += 1
                        continue
                    reported.add(key)
                    n_viol += 1
                    status = EXIT_VIOLATION
                    if r.get("replay_path"):
                        out("  %s/%s: %s" % (v["prop"], v["inv"], v["detail"][:600]))
                        out("VIOLATION property=%s replay=%s" % (prop, r["replay_path"]))
                    else:
                        report_violation(prop, r["world"], seed, r, repo)
        if harness_errors:
            if status != EXIT_VIOLATION:
                raise HarnessError(harness_errors[0])
            # violations were reported; runs in which the (broken) code also broke the harness's own assumptions
            err("note: %d run(s) ended in a harness error after violations were reported; first: %s" % (len(harness_errors), harness_errors[0][-400:]))
            extra["harness_errors"] = len(harness_errors)
        seen = {}
        for r in results:
            for k in r.get("known_hits", []):
                seen.setdefault((k["inv"], k["known"]), 0)
                seen[(k["inv"], k["known"])] += 1
        for (inv, text), cnt in sorted(seen.items()):
            out("KNOWN-FINDING: property=%s %s (inv=%s, hit in %d run(s))" % (prop, text, inv, cnt))
        extra["known_findings_hit"] = {("%s|%s" % k): v for k, v in seen.items()}
        other = {}
        for r in results:
            for a in r.get("other_alerts", []):
                other.setdefault("%s/%s" % (a["prop"], a["inv"]), 0)
                other["%s/%s" % (a["prop"], a["inv"])] += 1
        extra["other_property_alerts"] = other
        if other:
            err("note: monitors of other properties fired (their own checks report them):", other)
        samples = []
        for r in results:
            if "ops" in r and r.get("status") == "ok" and len(samples) < 3:
                samples.append({"world": r["world"], "run_index": r["index"], "run_seed": r["run_seed"],
                                "header": _trim(r.get("header")), "ops": _trim(r["ops"][:12]),
                                "ops_total": len(r["ops"]), "digest": r["digest"]})
            if r.get("sample") and len(samples) < 6:
                samples.append(r["sample"])
        wall = time.time() - t0
        for r in results:
            for k in ("extra",):
                if r.get(k):
                    for kk, vv in r[k].items():
                        if isinstance(vv, (int, float)) and not isinstance(vv, bool):
                            extra[kk] = extra.get(kk, 0) + vv
                        else:
                            extra[kk] = vv
        core.write_evidence(prop, tier, seed, plan["level"], results, wall, plan["rule"], plan["assumptions"],
                            extra, samples, n_viol)
        # self-check: probes that must not be stuck at zero (reported, never a VIOLATION)
        from collections import Counter
        pr = Counter()
        for r in results:
            if r.get("status") == "ok":
                pr.update(r["probes"])
        for name in plan.get("must_probe", {}).get(tier, plan.get("must_probe", {}).get("all", [])):
            if pr.get(name, 0) == 0:
                err("SELF-CHECK: probe %r stayed at zero in this %s run" % (name, tier))
        out("%s %s: %d runs, %d violation(s), %.1fs" % (prop, tier, sum(1 for r in results if r.get("status") == "ok"), n_viol, wall))
    except HarnessError as e:
        out("HARNESS-ERROR property=%s %s" % (prop, str(e)[:3000]))
        return EXIT_HARNESS
    return status


def _trim(o, n=400):
    s = json.dumps(o, sort_keys=True)
    if len(s) <= n * 6:
        return o
    return {"truncated_json": s[:n * 6]}


def replay(path):
    rep, run, doc = core.replay_file(path)
    out("replay %s: property=%s world=%s ops=%d digest=%s" % (path, doc["property"], doc["world"], len(doc["ops"]), run.digest()))
    for v in run.violations:
        out("  %s/%s: %s" % (v["prop"], v["inv"], v["detail"][:600]))
    for k in run.known_hits:
        out("KNOWN-FINDING: property=%s %s" % (doc["property"], k.get("known")))
    if rep:
        if doc.get("digest") and doc["digest"] != run.digest():
            out("note: violation reproduces but the event digest differs from the recorded one (tree changed?)")
        out("VIOLATION property=%s replay=%s" % (doc["property"], path))
        return EXIT_VIOLATION
    out("not reproduced on this tree")
    return EXIT_OK


def main(argv):
    if len(argv) >= 2 and argv[0] == "--replay":
        return replay(argv[1])
    if argv and argv[0] == "selftest-determinism":
        import selftest
        return selftest.determinism(argv[1:])
    if argv and argv[0] == "selftest-benign":
        import selftest
        return selftest.benign(argv[1:])
    if argv and argv[0] == "selftest-mutants":
        import selftest
        return selftest.mutants(argv[1:])
    if len(argv) == 2 and argv[1] in ("quick", "thorough"):
        # run from a scratch working directory: code under test that creates directories or files from relative
        # (simulated) paths must not litter /verif
        import atexit
        import shutil
        cwd = "/dev/shm/cct-cwd-%d" % os.getpid()
        os.makedirs(cwd, exist_ok=True)
        os.chdir(cwd)
        atexit.register(lambda p=cwd, me=os.getpid(): shutil.rmtree(p, ignore_errors=True) if os.getpid() == me else None)
        return check(argv[0], argv[1])
    err(__doc__)
    return 2


if __name__ == "__main__":
    # `python check.py` loads this file as __main__; make `import check` elsewhere resolve to it
    sys.modules.setdefault("check", sys.modules["__main__"])
    try:
        rc = main(sys.argv[1:])
        try:
            import pgp
            pgp.sweep_stale_homes()
        except Exception:
            pass
    except HarnessError as e:
        out("HARNESS-ERROR %s" % (str(e)[:3000],))
        rc = EXIT_HARNESS
    sys.exit(rc)
