"""W1 / chain profile: root key holders run key ceremonies (OpenPGP-mode threshold signing, one event per
signature), a repository publishes N.root.json, an attacker compromises keys over time and crafts or
replays documents, a lossy/corrupting network sits in between, and one or two clients replace their
trusted root only when the library's verify_root returns.  Clients persist adopted roots on a simulated
file system and may crash and restart.

Target properties: C03 (per-offer refinement against the chain model), C04 (invariants over the whole
history), C16 (chain closure of builder output), C13/C12 monitors.
"""
import copy
import json

import gen
import rfc8032
from core import World, register, Hbytes, HarnessError
from refmodel import (date_status, Ledger, counted_keys, independent_entry_valid, keylist_ok, payload_hash, pgp_digest,
                      refcanon, threshold_ok, typed_eq, version_successor)
from seams import (LibCalls, Patcher, SimFS, SimClockState, install_clock, load_library, make_clock_class, exc_site)
from world_envelope import GpgStub, KeyRing, _tweak_entry

IMPLS = ["simgpg", "simgpg", "lib-gpg", "lib-gpg-file", "indep-pgp"]
START_VERSIONS = [1, 1, 1, 1, 1, 2, 7, 41, 2**31 - 1, 2**53, 2**64]
EXOTIC_VERSIONS = [9007199254740992.0, 1.0, 2.0, True, 1e300, 4503599627370496.0, 9007199254740993,
                   18014398509481984.0]


def digest(doc):
    try:
        return payload_hash(doc)
    except (TypeError, AssertionError, RecursionError):
        return "unhashable"


@register
class ChainWorld(World):
    name = "chain"

    @classmethod
    def header(cls, rng, tier, prop):
        n_keys = rng.choice([3, 4, 5, 6, 8, 10])
        h = {
            "n_ops": rng.randint(15, 60),
            "n_keys": n_keys,
            "key_seeds": [Hbytes("ckey", rng.getrandbits(64), i).hex() for i in range(n_keys)],
            "encoding": rng.choice(["utf-8", "utf-8", "ascii", "latin-1", "utf-16"]),
            "fault_rate": rng.choice(["none", "low", "low", "medium"]),
            "clients": rng.choice([1, 1, 2]),
            "epoch": rng.choice([1583020800, 1709164800, 1735689599, 2147483640, rng.randint(10**9, 3 * 10**9)]),
            "start_version": rng.choice(START_VERSIONS) if rng.random() < 0.9 else rng.choice(EXOTIC_VERSIONS),
            "start_keys": rng.randint(1, min(4, n_keys)),
            "profile": "history",
            "single_cache_file": rng.random() < 0.5,
            "werror": rng.random() < 0.2,     # client keeps one root.json it rewrites, or N.root.json per adoption
        }
        h["start_threshold"] = rng.randint(1, h["start_keys"])
        if prop == "C03" and rng.random() < 0.5:
            h["profile"] = "single-step"
            h["n_ops"] = rng.randint(8, 25)
        if tier == "thorough" and rng.random() < 0.25:
            h["n_ops"] = rng.randint(60, 200)        # long rotation histories (dozens of versions, many compromises)
            h["clients"] = rng.choice([2, 3])
        return h

    def __init__(self, run, header):
        super().__init__(run, header)
        self.lib = load_library()
        self.calls = LibCalls(run, self.lib, header.get("encoding", "utf-8"), werror=bool(header.get("werror")))
        self.keys = KeyRing(self.lib, header["key_seeds"])
        self.ledger = Ledger()
        self.clock = float(header.get("epoch", 1.6e9))
        self.patch = Patcher()
        self.fs = SimFS(run)
        self.gpgstub = GpgStub(self)
        rs = self.lib.root_signing
        self.patch.set(rs, "SSLIB_AVAILABLE", True)
        self.patch.set(rs, "gpg_funcs", self.gpgstub)
        self.fs.install_open(self.patch, self.lib)
        self.fs.install_stat(self.patch)
        self.fs.install_rename(self.patch)
        self.fs.install_fd(self.patch)
        self.cstate = SimClockState(self.clock)
        self.cstate.hook = self._clock_hook
        install_clock(self.patch, self.lib, self.cstate)
        self.compromised = set()
        self.honest_payloads = set()     # payload hashes of every root the honest quorum decided on
        self.repo = {}                   # version (as repr) -> doc
        self.repo_order = []             # published docs in order
        self.crafted = []
        self.staged = None
        self.memo = {}                   # (digest(T), digest(N)) -> verdict class
        self.pending = {}                # delayed responses: id -> (client, doc)
        self.attacker_quorum_seen = False
        # initial root = trust anchor, built by the harness's honest quorum
        ks = list(range(header["start_keys"]))
        v0 = header["start_version"]
        root = self._build_root(v0, ks, header["start_threshold"], [min(len(self.keys) - 1, header["start_keys"])], 1)
        for i in ks:
            self._pgp_sign(root, i, "simgpg")
        self.head = root
        self.honest_chain = [root]
        self.honest_payloads.add(payload_hash(root["signed"]))
        self.repo[repr(v0)] = root
        self.clients = []
        for c in range(header.get("clients", 1)):
            self.clients.append({"trusted": copy.deepcopy(root), "history": [digest(root)], "n": 0, "forked": False})
            self.fs.put("c%d/root.json" % c if header.get("single_cache_file") else "c%d/0.root.json" % c, refcanon(root))

    def close(self):
        self.patch.restore()

    def _clock_hook(self, n):
        self.cstate.now = self.clock

    # ------------------------------------------------------------------ building / signing
    def _build_root(self, version, root_idx, root_t, km_idx, km_t, via_builder=False):
        md = {
            "type": "root", "version": version, "metadata_spec_version": "0.6.0",
            "timestamp": "2020-01-01T00:00:00Z", "expiration": "2030-01-01T00:00:00Z",
            "delegations": {
                "root": {"pubkeys": [self.keys.pub[i] for i in root_idx], "threshold": root_t},
                "key_mgr": {"pubkeys": [self.keys.pub[i] for i in km_idx], "threshold": km_t},
            },
        }
        return {"signatures": {}, "signed": md}

    def _pgp_sign(self, doc, i, impl, hdr=None):
        """Key holder i signs doc in OpenPGP mode; ledger updated; entry filed under the raw key."""
        pub = self.keys.pub[i]
        if impl == "lib-gpg":
            o = self.calls.raw("sign_root_metadata_dict_via_gpg", doc, self.keys.fpr[i])
            if not o.ok:
                self.run.violate(("C10", "C02"), "gpg-sign-failed", "sign_root_metadata_dict_via_gpg raised %r" % (o,),
                                 "gpg-sign-failed:" + o.cls)
            return
        if impl == "lib-gpg-file":
            path = "ceremony/staged.json"
            self.fs.put(path, refcanon(doc))
            o = self.calls.raw("sign_root_metadata_via_gpg", path, self.keys.fpr[i])
            if not o.ok:
                self.run.violate(("C10", "C02", "C08"), "gpg-sign-failed", "sign_root_metadata_via_gpg raised %r" % (o,),
                                 "gpg-sign-failed:" + o.cls)
                return
            try:
                new = json.loads(self.fs.get(path))
            except ValueError:
                self.run.violate(("C08",), "gpg-file-unparsable", "file written by sign_root_metadata_via_gpg does not parse")
                return
            if not typed_eq(new["signed"], doc["signed"]):
                self.run.violate(("C08",), "gpg-file-changed-payload", "signing a stored file changed its payload")
                return
            for k, v in doc["signatures"].items():
                if k != pub and not typed_eq(new["signatures"].get(k), v):
                    self.run.violate(("C08", "C09"), "gpg-file-changed-entry", "signing a stored file altered another signature")
            doc["signatures"] = new["signatures"]
            return
        data = refcanon(doc["signed"])
        h = bytes.fromhex(hdr) if hdr else self.gpgstub.headers_for(self.keys.fpr[i], int(self.clock) % 2**32)
        dig = pgp_digest(data, h)
        sig = (rfc8032.sign(self.keys.seeds[i], dig) if impl == "indep-pgp" else self.keys.priv[i].sign(dig)).hex()
        self.ledger.record_pgp(pub, payload_hash(doc["signed"]), h.hex(), sig)
        doc["signatures"][pub] = {"other_headers": h.hex(), "signature": sig}

    # ------------------------------------------------------------------ chain model
    def _wf(self, doc):
        o = self.calls.raw("checkformat_delegating_metadata", doc)
        return o.ok

    def model_root(self, T, N):
        """(accept?, reason, plainly_wellformed?)"""
        for D in (T, N):
            # independent of the library's checker: a date the standard parser refuses makes the document malformed
            sg = D.get("signed") if isinstance(D, dict) else None
            if isinstance(sg, dict):
                for f in ("expiration", "timestamp"):
                    if f in sg and date_status(sg[f]) == "invalid":
                        return False, "malformed-date", False
        if not self._wf(T) or not self._wf(N):
            return False, "malformed", False
        ts, ns = T["signed"], N["signed"]
        if ts["type"] != "root" or ns["type"] != "root":
            return False, "not-root", True
        if "root" not in ts["delegations"] or "root" not in ns["delegations"]:
            return False, "no-root-delegation", True
        plain = type(ts["version"]) is int and type(ns["version"]) is int
        if not version_successor(ts["version"], ns["version"]):
            return False, "version", plain
        for which, src in (("old", ts), ("new", ns)):
            d = src["delegations"]["root"]
            if not (keylist_ok(d["pubkeys"]) and threshold_ok(d["threshold"])):
                return False, "rule-" + which, False
            plain = plain and type(d["threshold"]) is int
            k = len(counted_keys(self.ledger, ns, N["signatures"], d["pubkeys"], True))
            if k < d["threshold"]:
                return False, "sigs-" + which, plain
        return True, "ok", plain

    def _margins(self, T, N):
        out = []
        try:
            for src in (T["signed"], N["signed"]):
                d = src["delegations"]["root"]
                k = len(counted_keys(self.ledger, N["signed"], N["signatures"], d["pubkeys"], True))
                out.append(max(-2, min(2, k - d["threshold"])))
        except Exception:
            return ["x", "x"]
        return out

    def _indep_ok(self, T, N):
        for src in (T["signed"], N["signed"]):
            d = src["delegations"]["root"]
            n = 0
            for kk in sorted(set(d["pubkeys"])):
                if kk in N["signatures"] and independent_entry_valid(kk, N["signed"], N["signatures"][kk], True):
                    n += 1
            if n < d["threshold"]:
                return False
        return True

    def judge_offer(self, T, N, o, ctx):
        run = self.run
        accept, reason, plain = self.model_root(T, N)
        m = self._margins(T, N) if reason in ("ok", "sigs-old", "sigs-new") else ["-", "-"]
        run.fp("chain", reason, o.cls, m, ctx)
        run.probe("offer_" + reason)
        if reason == "ok" and m == [0, 0]:
            run.probe("accepted_at_exact_threshold_both_rules")
        if reason == "sigs-new" and m[0] >= 0:
            run.probe("old_rule_met_new_rule_missed")
        if reason == "sigs-old" and m[1] != "-" and m[1] >= 0:
            run.probe("new_rule_met_old_rule_missed")
        key = (digest(T), digest(N))
        prev = self.memo.get(key)
        if prev is not None and prev != o.cls and "unhashable" not in key:
            run.violate(("C04", "C12"), "history-dependent-verdict",
                        "the same (trusted, offered) pair got %s earlier and %s now" % (prev, o.cls), "history-dependent-verdict")
        self.memo[key] = o.cls
        if o.ok and not accept:
            if reason in ("sigs-old", "sigs-new") and self._indep_ok(T, N):
                raise HarnessError("chain model rejects (%s) but independent verification accepts" % reason)
            # a shortage of signatures that is not reported as a signature error is also a breach of the quorum rule (C01) and of
            # the error mapping (C13)
            run.violate(("C03", "C04", "C01", "C13") if reason in ("sigs-old", "sigs-new") else ("C03", "C04"), "root-accepted-wrongly",
                        "%s: verify_root accepted although the chain model rejects it (%s); trusted version %r, offered "
                        "version %r, margins old/new %r" % (ctx, reason, _ver(T), _ver(N), m), "root-accepted:" + reason)
            return True
        if not o.ok and accept and plain:
            if not self._indep_ok(T, N):
                raise HarnessError("chain model accepts but independent verification rejects")
            site = exc_site(self.lib, o.exc)
            run.violate(("C03", "C04", "C02"), "root-rejected-wrongly",
                        "%s: verify_root raised %s (%s) at %s although version is trusted+1 and both root rules are met"
                        % (ctx, o.cls, str(o.exc)[:160], site), "root-rejected:%s@%s" % (o.cls, site))
            return False
        if not o.ok and plain:
            lib = self.lib
            if reason == "version":
                # a single defect is reported with its documented class; if the signatures are deficient
                # as well, either class is admitted
                sig_ok = all(x != "x" and x >= 0 for x in self._margins(T, N))
                want = (lib.MetadataVerificationError,) if sig_ok else (lib.MetadataVerificationError, lib.SignatureError)
            elif reason in ("sigs-old", "sigs-new"):
                want = (lib.SignatureError,)
            else:
                want = None
            if want and not isinstance(o.exc, want):
                run.violate(("C13",), "wrong-error-class", "%s reported as %s, expected %s"
                            % (reason, o.cls, "/".join(w.__name__ for w in want)), "verify_root:%s:%s" % (reason, o.cls))
        return o.ok

    # ------------------------------------------------------------------ executor
    def apply(self, op):
        dt = op.get("dt", 0)
        self.clock += dt
        self.fs.now += dt
        self.run.sim_time += dt
        getattr(self, "op_" + op["op"])(op)

    def op_ceremony_start(self, op):
        root_idx = [i for i in op["root"] if i < len(self.keys)]
        km_idx = [i for i in op["km"] if i < len(self.keys)]
        version = op["version"]
        if version == "next":
            hv = self.head["signed"]["version"]
            version = hv + 1 if type(hv) is int else hv
        kw = {}
        if op.get("ts"):
            kw["root_timestamp"] = op["ts"]
        if op.get("exp"):
            kw["root_expiration"] = op["exp"]
        o = self.calls.raw("build_root_metadata", version, [self.keys.pub[i] for i in root_idx], op["t"],
                           [self.keys.pub[i] for i in km_idx], op["km_t"], **kw)
        if not o.ok:
            if not isinstance(o.exc, (TypeError, ValueError)):
                self.run.violate(("C16", "C13"), "builder-error-class", "build_root_metadata raised %r" % (o,),
                                 "build_root_metadata:" + o.cls)
            return
        md = o.value
        w = self.calls.raw("wrap_as_signable", md)
        if not w.ok:
            self.run.violate(("C16",), "builder-unwrappable", "builder output cannot be wrapped: %r" % (w,))
            return
        doc = w.value
        if not self._wf(doc):
            self.run.violate(("C16",), "builder-output-malformed", "build_root_metadata output fails the delegating-metadata checker")
            return
        d = md.get("delegations", {})
        if set(d) != {"root", "key_mgr"} or md.get("version") != version or md.get("type") != "root":
            self.run.violate(("C16",), "builder-not-faithful", "root metadata does not carry its arguments verbatim")
            return
        if op.get("legacy"):
            # a root file as older tooling wrote it / as operators extend it by hand: another spec version, further delegations next to
            # root and key_mgr (file-style names, retired keys parked under another name).  Only the delegation named "root" rules root.
            keep = copy.deepcopy(doc)
            doc["signed"]["metadata_spec_version"] = op["legacy"].get("spec", "0.1.0")
            for name, idxs in op["legacy"].get("extra", {}).items():
                doc["signed"]["delegations"][name] = {"pubkeys": [self.keys.pub[i] for i in idxs if i < len(self.keys)], "threshold": 1}
            if not self._wf(doc):
                doc = keep
            else:
                self.run.probe("legacy_style_root")
        self.staged = {"doc": doc, "signers": []}
        self.honest_payloads.add(payload_hash(doc["signed"]))
        self.run.probe("ceremony_started")

    def op_ceremony_sign(self, op):
        if self.staged is None or op["key"] >= len(self.keys):
            return self.run.ev("noop")
        self._pgp_sign(self.staged["doc"], op["key"], op["impl"], op.get("hdr"))
        self.staged["signers"].append(op["key"])
        self.run.probe("ceremony_signature")

    def op_publish(self, op):
        if self.staged is None:
            return self.run.ev("noop")
        doc = copy.deepcopy(self.staged["doc"])
        accept, reason, plain = self.model_root(self.head, doc)
        self.repo[repr(doc["signed"]["version"])] = doc
        self.repo_order.append(doc)
        if accept:
            self.head = doc
            self.honest_chain.append(doc)
            self.staged = None
            self.run.probe("honest_rotation_published")
        else:
            self.run.fault("premature_publication")

    def op_compromise(self, op):
        if op["key"] < len(self.keys):
            self.compromised.add(op["key"])
            self.run.fault("key_compromise")

    def _base(self, b):
        kind = b[0]
        if kind == "repo":
            return self.repo_order[b[1]] if b[1] < len(self.repo_order) else None
        if kind == "staged":
            return self.staged["doc"] if self.staged else None
        if kind == "chain":
            return self.honest_chain[b[1]] if b[1] < len(self.honest_chain) else None
        if kind == "crafted":
            return self.crafted[b[1]] if b[1] < len(self.crafted) else None
        if kind == "trusted":
            return self.clients[b[1]]["trusted"] if b[1] < len(self.clients) else None
        return None

    def op_craft(self, op):
        base = self._base(op["base"])
        if base is None:
            return self.run.ev("noop")
        doc = copy.deepcopy(base)
        self._apply_mods(doc, op.get("mods", []))
        signers = [i for i in op.get("signers", []) if i in self.compromised and i < len(self.keys)]
        for i in signers:
            if not isinstance(doc.get("signatures"), dict):
                break
            try:
                if op.get("raw"):
                    sig = self.keys.priv[i].sign(refcanon(doc["signed"])).hex()
                    self.ledger.record_raw(self.keys.pub[i], payload_hash(doc["signed"]), sig)
                    doc["signatures"][self.keys.pub[i]] = {"signature": sig}
                else:
                    self._pgp_sign(doc, i, "simgpg", op.get("hdr"))
            except (TypeError, AssertionError, KeyError, AttributeError):
                break
        listed = set()
        for R in list(self.honest_chain) + ([self.staged["doc"]] if isinstance(self.staged, dict) and isinstance(self.staged.get("doc"), dict) else []):
            try:
                listed |= set(R["signed"]["delegations"]["root"]["pubkeys"])
            except (KeyError, TypeError, AttributeError):
                pass
        for i in op.get("outsiders", []):
            if i < len(self.keys) and self.keys.pub[i] in listed and i not in self.compromised:
                continue            # an honest holder's key: the attacker cannot sign with it
            if isinstance(doc.get("signatures"), dict) and i < len(self.keys):
                self.compromised.add(i)       # the attacker's own key: his for the rest of the run, whoever lists it later
                try:
                    self._pgp_sign(doc, i, "simgpg", op.get("hdr"))
                except (TypeError, AssertionError, KeyError, AttributeError):
                    break
        self._apply_mods(doc, op.get("mods_after", []))
        if op.get("flood") and isinstance(doc.get("signatures"), dict):
            import random as _random
            _, n, seed, front = op["flood"][:4]
            r = _random.Random(seed)
            wf = r.random() < 0.7          # entries that pass the envelope's format check (and are then ignored one by one) or arbitrary junk
            hx = lambda m: "".join(r.choice("0123456789abcdef") for _ in range(m))  # noqa: E731
            junk = {}
            while len(junk) < n:
                if wf and r.random() < 0.25:
                    # names that are not keys at all (notes a relay or tool left in the unsigned part), well-formed entries
                    k = r.choice(["note", "\ud800", "\udc80abc", "\u00e9", "\U0001f600", "", " ", "comment-%d" % len(junk), "\ud83d", "a\x00b", "\u2028"]) + ("" if r.random() < 0.5 else str(len(junk)))
                    ent = {"signature": hx(128)} if r.random() < 0.5 else {"other_headers": hx(12), "signature": hx(128)}
                elif wf:
                    k = hx(64)
                    ent = {"signature": hx(128)} if r.random() < 0.5 else {"other_headers": hx(r.choice([2, 12, 70])), "signature": hx(128)}
                else:
                    k, ent = gen.junk_key(r, self.keys.pub), gen.junk_entry(r)
                if k not in self.keys.pub and k not in doc["signatures"]:
                    junk[k] = ent
            if front:
                junk.update(doc["signatures"])
                doc["signatures"] = junk
            else:
                doc["signatures"].update(junk)
        for k in op.get("kinds", []):
            self.run.fault("attack_" + k)
        self.crafted.append(doc)

    def _apply_mods(self, doc, mods):
        for m in mods:
            kind = m[0]
            try:
                s = doc["signed"]
                if kind == "version":
                    s["version"] = m[1]
                elif kind == "version_delta":
                    s["version"] = s["version"] + m[1]
                elif kind == "root_threshold":
                    s["delegations"]["root"]["threshold"] = m[1]
                elif kind == "root_keys":
                    s["delegations"]["root"]["pubkeys"] = [self.keys.pub[i] for i in m[1] if i < len(self.keys)]
                elif kind == "add_root_key":
                    if m[1] < len(self.keys) and self.keys.pub[m[1]] not in s["delegations"]["root"]["pubkeys"]:
                        s["delegations"]["root"]["pubkeys"].append(self.keys.pub[m[1]])
                elif kind == "type":
                    s["type"] = m[1]
                elif kind == "drop_root_delegation":
                    s["delegations"].pop("root", None)
                elif kind == "rename_root_delegation":
                    if "root" in s["delegations"]:
                        s["delegations"][m[1]] = s["delegations"].pop("root")
                elif kind == "set":
                    if m[1]:
                        gen.set_path(doc, m[1], m[2])
                elif kind == "del":
                    gen.del_path(doc, m[1])
                elif kind == "strip_sigs":
                    doc["signatures"] = {}
                elif kind == "drop_sig":
                    doc["signatures"].pop(self.keys.pub[m[1]], None)
                elif kind == "junk":
                    doc["signatures"][m[1]] = m[2]
                elif kind == "tweak":      # ["tweak", key idx, tweak]
                    pub = self.keys.pub[m[1]]
                    if pub in doc["signatures"]:
                        e = _tweak_entry(doc["signatures"][pub], m[2])
                        if e is not None:
                            doc["signatures"][pub] = e
                elif kind == "respell":    # ["respell", key idx, how]
                    pub = self.keys.pub[m[1]]
                    if pub in doc["signatures"]:
                        doc["signatures"][gen.respell(pub, m[2])] = copy.deepcopy(doc["signatures"][pub])
                elif kind == "misfile":    # entry of a filed under b
                    a, b = self.keys.pub[m[1]], self.keys.pub[m[2]]
                    if a in doc["signatures"]:
                        doc["signatures"][b] = copy.deepcopy(doc["signatures"][a])
                elif kind == "expiration":
                    s["expiration"] = m[1]
                elif kind == "clone_under":   # ["clone_under", a, b, fresh signature hex or None]: a's entry (its notes and headers) copied under b
                    a, b = self.keys.pub[m[1]], self.keys.pub[m[2]]
                    if a in doc["signatures"] and isinstance(doc["signatures"][a], dict):
                        e = copy.deepcopy(doc["signatures"][a])
                        if m[3]:
                            e["signature"] = m[3]
                        doc["signatures"][b] = e
            except (KeyError, TypeError, IndexError, AttributeError):
                continue

    def _deliver(self, c, doc, ctx):
        cl = self.clients[c]
        T = cl["trusted"]
        N = copy.deepcopy(doc)
        o = self.calls.call("verify_root", T, N)
        if digest(T) != cl["history"][-1]:
            # the client's trusted root is only ever replaced by an accepted update; nothing else may change it
            self.run.violate(("C04", "C03", "C12"), "trusted-root-changed-without-adoption",
                             "the trusted root object held by the client changed although no update was adopted (verification modified it)",
                             "trusted-root-changed-without-adoption")
            return
        adopted = self.judge_offer(T, N, o, ctx)
        if self.run.stop:
            return
        if o.ok:
            # C04 (i): single increment; (ii): only a quorum of the keys in force can move the client
            tv, nv = T["signed"].get("version"), N["signed"].get("version")
            if type(tv) is int and type(nv) is int and nv != tv + 1:
                self.run.violate(("C04",), "not-single-increment", "client moved from version %r to %r" % (tv, nv))
            ph = digest(N["signed"])
            if ph not in self.honest_payloads:
                d = T["signed"]["delegations"].get("root", {})
                held = len({k for k in d.get("pubkeys", []) if k in {self.keys.pub[i] for i in self.compromised}})
                if not (threshold_ok(d.get("threshold")) and held >= d["threshold"]):
                    self.run.violate(("C04",), "attacker-moved-trusted-root",
                                     "client adopted a root the honest quorum never produced although the attacker holds only "
                                     "%d of the keys in force (threshold %r)" % (held, d.get("threshold")), "attacker-moved-trusted-root")
                    return
                cl["forked"] = True
                self.run.probe("attacker_with_quorum_moved_client")
            cl["n"] += 1
            path = self._cache_path(c)
            w = self.calls.raw("write_metadata_to_file", N, path)
            if not w.ok:
                self.run.violate(("C08", "C04"), "persist-failed", "write_metadata_to_file raised %r for a root the client had just verified and adopted" % (w,))
                return
            cl["trusted"] = N
            cl["history"].append(digest(N))
            self.run.probe("client_adopted_root")
            # read-back: what was just persisted loads as what is now trusted
            rb = self.calls.raw("load_metadata_from_file", path)
            if not rb.ok or not typed_eq(rb.value, N) or refcanon(rb.value) != refcanon(N):
                self.run.violate(("C04", "C08"), "reload-differs", "the root just persisted does not load back as the root just adopted (%r)"
                                 % (rb if not rb.ok else "different value",), "reload-differs")
                return
        else:
            self.run.probe("client_rejected_offer")

    def op_offer(self, op):
        c = op["client"]
        if c >= len(self.clients):
            return self.run.ev("noop")
        src = op["src"]
        if src[0] == "repo_next":
            tv = self.clients[c]["trusted"]["signed"].get("version")
            doc = self.repo.get(repr(tv + 1)) if type(tv) is int else None
        else:
            doc = self._base(src)
        if doc is None:
            return self.run.ev("noop")
        net = op.get("net")
        if net:
            self.run.fault("net_" + net[0])
            if net[0] == "drop":
                return
            if net[0] == "delay":
                self.pending[net[1]] = (c, copy.deepcopy(doc))
                return
            if net[0] in ("flip", "trunc"):
                raw = bytearray(refcanon(doc))
                if net[0] == "flip":
                    pos = net[1] % (len(raw) * 8)
                    raw[pos // 8] ^= 1 << (pos % 8)
                else:
                    raw = raw[:max(0, len(raw) - net[1])]
                self.fs.put("net/resp.json", bytes(raw))
                lo = self.calls.raw("load_metadata_from_file", "net/resp.json")
                if not lo.ok:
                    self.run.probe("corrupted_response_unparsable")
                    return
                doc = lo.value
        if op.get("stdout"):
            # the client's standard output breaks while the verifier reports what it ignores (closed stream, broken pipe, full device):
            # the verification may fail, it must not turn into an acceptance the chain rules do not grant.  Nothing is adopted.
            T, N = self.clients[c]["trusted"], copy.deepcopy(doc)
            self.calls.out.arm(op["stdout"][1], op["stdout"][0])
            o = self.calls.raw("verify_root", T, N)
            fired = self.calls.out.disarm()
            if fired:
                self.run.fault("stdout_write_failure_" + op["stdout"][0])
                accept, reason, _ = self.model_root(T, N)
                if o.ok and not accept:
                    self.run.violate(("C03", "C04", "C01"), "root-accepted-wrongly", "verify_root accepted although the chain model rejects it (%s) - while "
                                     "writes to standard output were failing (%s)" % (reason, op["stdout"][0]), "root-accepted:stdout:" + reason)
            else:
                self.run.probe("fault_point_beyond_call")
            return
        self._deliver(c, doc, "offer:" + src[0])
        if net and net[0] == "dup" and not self.run.stop:
            self._deliver(c, doc, "offer-dup:" + src[0])

    def op_deliver(self, op):
        p = self.pending.pop(op["id"], None)
        if p is None:
            return self.run.ev("noop")
        self.run.probe("stale_response_delivered")
        self._deliver(p[0], p[1], "delayed")

    def op_recheck(self, op):
        """Re-evaluate an earlier (trusted, offered) pair: verdicts never depend on earlier offers."""
        T, N = self._base(op["t"]), self._base(op["n"])
        if T is None or N is None:
            return self.run.ev("noop")
        o = self.calls.call("verify_root", copy.deepcopy(T), copy.deepcopy(N))
        self.judge_offer(T, N, o, "recheck")

    def op_crash_restart(self, op):
        c = op["client"]
        if c >= len(self.clients):
            return self.run.ev("noop")
        cl = self.clients[c]
        path = self._cache_path(c)
        lo = self.calls.raw("load_metadata_from_file", path)
        self.run.fault("client_crash_restart")
        if not lo.ok:
            self.run.violate(("C04", "C08"), "reload-failed", "reloading the persisted trusted root raised %r" % (lo,))
            return
        if not typed_eq(lo.value, cl["trusted"]) or refcanon(lo.value) != refcanon(cl["trusted"]):
            self.run.violate(("C04", "C08"), "reload-differs", "persisted trusted root reloads to a different value")
            return
        if self.fs.get(path) != refcanon(cl["trusted"]):
            self.run.violate(("C08",), "persisted-not-canonical", "persisted trusted root is not in canonical form")
        cl["trusted"] = lo.value

    def op_tick(self, op):
        pass

    def _cache_path(self, c):
        if self.h.get("single_cache_file"):
            return "c%d/root.json" % c
        return "c%d/%d.root.json" % (c, self.clients[c]["n"])

    # ------------------------------------------------------------------ quiescence
    def finish(self):
        run = self.run
        # faults off; pending ceremony completed honestly and published
        if self.staged is not None:
            doc = self.staged["doc"]
            need = set()
            try:
                for src in (self.head["signed"], doc["signed"]):
                    need.update(src["delegations"]["root"]["pubkeys"])
            except (KeyError, TypeError):
                need = set()
            for i, pub in enumerate(self.keys.pub):
                if pub in need and pub not in doc["signatures"]:
                    self._pgp_sign(doc, i, "simgpg")
            self.op_publish({})
        for c, cl in enumerate(self.clients):
            if cl["forked"] or run.stop:
                continue
            # the client restarts (reloading what it persisted), then refreshes
            self.op_crash_restart({"client": c})
            if run.stop:
                return
            # bounded liveness: the refresh loop reaches the latest model-acceptable root
            fetches = 0
            start_v = cl["trusted"]["signed"]["version"]
            while fetches < 100:
                tv = cl["trusted"]["signed"]["version"]
                nxt = self.repo.get(repr(tv + 1)) if type(tv) is int else None
                if nxt is None:
                    break
                fetches += 1
                before = cl["n"]
                self._deliver(c, nxt, "quiescence")
                if run.stop or cl["n"] == before:
                    break
            if run.stop:
                return
            # model walk
            T = cl["trusted"]
            tv = T["signed"]["version"]
            nxt = self.repo.get(repr(tv + 1)) if type(tv) is int else None
            if nxt is not None:
                acc, reason, plain = self.model_root(T, nxt)
                if acc and plain:
                    run.violate(("C04", "C03", "C02"), "liveness", "client stopped at version %r although %r is acceptable" % (tv, tv + 1))
            if digest(cl["trusted"]) == digest(self.head):
                run.probe("client_converged_to_head")
            # and what the client persisted on the way reloads to what it trusts
            self.op_crash_restart({"client": c})
            if run.stop:
                return

    # ------------------------------------------------------------------ generator
    def gen(self, rng):
        h = self.h
        nk = len(self.keys)
        rate = {"none": 0.0, "low": 0.2, "medium": 0.45}[h["fault_rate"]]
        dt = rng.choice([0, 1, 3600, 86400, 30 * 86400, 200 * 86400])
        r = rng.random()
        nclients = len(self.clients)
        if self.staged is None and r < 0.22:
            return self._gen_ceremony(rng, dt)
        if self.staged is not None and r < 0.30:
            return self._gen_ceremony_sign(rng, dt)
        if self.staged is not None and r < 0.40:
            return {"op": "publish", "dt": dt}
        if rng.random() < rate:
            return self._gen_attack(rng, dt)
        r = rng.random()
        if r < 0.5:
            op = {"op": "offer", "client": rng.randrange(nclients), "src": ["repo_next"], "dt": dt}
            if rate and rng.random() < 0.35:
                op["net"] = self._gen_net(rng)
            return op
        if r < 0.62 and self.repo_order:
            # replay / rollback / skip of honestly published documents
            self_idx = rng.randrange(len(self.repo_order))
            op = {"op": "offer", "client": rng.randrange(nclients), "src": ["repo", self_idx], "dt": dt}
            if rate and rng.random() < 0.3:
                op["net"] = self._gen_net(rng)
            return op
        if r < 0.68 and self.staged is not None:
            return {"op": "offer", "client": rng.randrange(nclients), "src": ["staged"], "dt": dt}   # leaked, partially signed
        if r < 0.76 and self.pending:
            return {"op": "deliver", "id": rng.choice(sorted(self.pending)), "dt": dt}
        if r < 0.84:
            return {"op": "crash_restart", "client": rng.randrange(nclients), "dt": dt}
        if r < 0.92 and (self.repo_order or self.crafted):
            pool = [["chain", i] for i in range(len(self.honest_chain))] + [["trusted", c] for c in range(nclients)]
            pool2 = [["repo", i] for i in range(len(self.repo_order))] + [["crafted", i] for i in range(len(self.crafted))]
            return {"op": "recheck", "t": rng.choice(pool), "n": rng.choice(pool2), "dt": dt}
        return {"op": "offer", "client": rng.randrange(nclients), "src": ["repo_next"], "dt": dt}

    def _gen_net(self, rng):
        k = rng.choice(["drop", "dup", "delay", "flip", "flip", "trunc"])
        if k == "delay":
            return ["delay", rng.randint(0, 5)]
        if k == "flip":
            return ["flip", rng.getrandbits(20)]
        if k == "trunc":
            return ["trunc", rng.choice([1, 2, 10, 100])]
        return [k]

    def _cur_root_idx(self, doc):
        pubs = doc["signed"]["delegations"]["root"]["pubkeys"]
        return [self.keys.pub.index(p) for p in pubs if p in self.keys.pub]

    def _gen_ceremony(self, rng, dt):
        nk = len(self.keys)
        cur = self._cur_root_idx(self.head)
        new = list(cur)
        r = rng.random()
        if r < 0.3 and len(new) < nk:
            new.append(rng.choice([i for i in range(nk) if i not in new]))
        elif r < 0.5 and len(new) > 1:
            new.remove(rng.choice(new))
        elif r < 0.7:
            out = rng.choice(new)
            cand = [i for i in range(nk) if i not in new]
            if cand:
                new[new.index(out)] = rng.choice(cand)
        elif r < 0.75:
            cand = [i for i in range(nk) if i not in new]
            if len(cand) >= 1:
                new = rng.sample(cand, rng.randint(1, len(cand)))       # complete hand-over
        rng.shuffle(new)
        t = rng.choice([1, max(1, len(new) - 1), len(new), len(new), rng.randint(1, len(new) + 1)])
        version = "next"
        r = rng.random()
        if r < 0.06:
            version = rng.choice([1, 2, 0, -1, 2.0, True, None, "2", 10**20, 1.5, float("inf"), float("nan")])   # operator error
        op = {"op": "ceremony_start", "root": new, "t": t, "km": [rng.randrange(nk)], "km_t": 1, "version": version, "dt": dt}
        if rng.random() < 0.15:
            others = [i for i in range(nk) if i not in new] or [rng.randrange(nk)]
            op["legacy"] = {"spec": rng.choice(["0.1.0", "0.5.9", "0.6.0", "0.0.1", "1.0.0"]),
                            "extra": {rng.choice(["root.json", "key_mgr.json", "Root", "root ", "pkg_mgr", "root.json"]): [rng.choice(others)],
                                      rng.choice(["pkg_mgr", "key_mgr.json", "old-root"]): [rng.choice(others)]}}
        if rng.random() < 0.3:
            op["ts"] = rng.choice(["2021-03-04T05:06:07Z", "2024-02-29T23:59:59Z", "1999-12-31T23:59:59Z", "not a date", 5])
        if rng.random() < 0.3:
            op["exp"] = rng.choice(["2031-03-04T05:06:07Z", "9999-12-31T23:59:59Z", "2020-02-30T00:00:00Z"])
        return op

    def _gen_ceremony_sign(self, rng, dt):
        doc = self.staged["doc"]
        want = set(self._cur_root_idx(self.head)) | set(self._cur_root_idx(doc))
        unsigned = [i for i in sorted(want) if self.keys.pub[i] not in doc["signatures"]]
        if unsigned and rng.random() < 0.9:
            i = rng.choice(unsigned)
        else:
            i = rng.randrange(len(self.keys))
        op = {"op": "ceremony_sign", "key": i, "impl": rng.choice(IMPLS), "dt": dt}
        if op["impl"] in ("simgpg", "indep-pgp") and rng.random() < 0.3:
            op["hdr"] = bytes(rng.getrandbits(8) for _ in range(rng.choice([1, 6, 35, 300]))).hex()
        return op

    def _gen_attack(self, rng, dt):
        nk = len(self.keys)
        nclients = len(self.clients)
        r = rng.random()
        if r < 0.18:
            cur = self._cur_root_idx(self.head)
            pool = cur if rng.random() < 0.7 and cur else list(range(nk))
            return {"op": "compromise", "key": rng.choice(pool), "dt": dt}
        if r < 0.62 or not self.crafted:
            return self._gen_craft(rng, dt)
        op = {"op": "offer", "client": rng.randrange(nclients), "src": ["crafted", rng.randrange(len(self.crafted))], "dt": dt}
        if rng.random() < 0.15:
            op["stdout"] = [rng.choice(["EPIPE", "closed", "ENOSPC", "EIO"]), rng.randint(1, 6)]
        r2 = rng.random()
        if r2 < 0.3:
            op["net"] = ["dup"]          # the attacker simply tries again (a retry, a second mirror)
        elif r2 < 0.45:
            op["net"] = self._gen_net(rng)
        return op

    def _gen_craft(self, rng, dt):
        nk = len(self.keys)
        comp = sorted(self.compromised)
        bases = [["chain", len(self.honest_chain) - 1], ["trusted", rng.randrange(len(self.clients))]]
        bases += [["repo", i] for i in range(len(self.repo_order))]
        if self.staged:
            bases.append(["staged"])
        if self.crafted:
            bases.append(["crafted", rng.randrange(len(self.crafted))])
        base = rng.choice(bases)
        mods, after, kinds = [], [], []
        signers = []
        outsiders = []
        hx = lambda n: "".join(rng.choice("0123456789abcdef") for _ in range(n))  # noqa: E731
        kind = rng.choice(["forge_next", "forge_next", "rollback", "skip", "same_version", "self_appoint",
                           "lower_threshold", "type_flip", "type_flip_after", "raw_sigs", "junk", "tweak", "drop_fields",
                           "double_count", "double_count",
                           "respell", "misfile", "confuse", "drop_root_delegation", "subthreshold", "new_only",
                           "old_only_unmeetable", "resign_stale", "outsider_takeover", "outsider_takeover", "bad_date", "shared_note"])
        kinds.append(kind)
        if kind == "forge_next":
            mods = [["version_delta", 1], ["strip_sigs"]]
            signers = comp
        elif kind == "subthreshold":
            mods = [["version_delta", 1], ["strip_sigs"]]
            signers = comp[:max(0, len(comp) - 1)] or comp
        elif kind == "rollback":
            mods = [["version_delta", rng.choice([-1, -2, 0])]]
            if rng.random() < 0.5:
                mods.append(["strip_sigs"])
                signers = comp
        elif kind == "skip":
            mods = [["version_delta", rng.choice([2, 3, 10])], ["strip_sigs"]]
            signers = comp
        elif kind == "same_version":
            mods = [["version_delta", 0], ["expiration", "2039-01-01T00:00:00Z"], ["strip_sigs"]]
            signers = comp
        elif kind == "self_appoint":
            mine = comp or [rng.randrange(nk)]
            mods = [["version_delta", 1], ["root_keys", mine], ["root_threshold", 1], ["strip_sigs"]]
            signers = comp
        elif kind == "lower_threshold":
            mods = [["version_delta", 1], ["root_threshold", 1], ["strip_sigs"]]
            signers = comp[:1]
        elif kind == "new_only":
            others = [i for i in range(nk) if i in self.compromised] or [rng.randrange(nk)]
            mods = [["version_delta", 1], ["root_keys", others], ["root_threshold", max(1, len(others))], ["strip_sigs"]]
            signers = others
        elif kind == "old_only_unmeetable":
            mods = [["version_delta", 1], ["root_threshold", rng.choice([50, 10**6])], ["strip_sigs"]]
            signers = comp
        elif kind == "type_flip":
            mods = [["version_delta", rng.choice([0, 1])], ["type", rng.choice(["key_mgr", "Root", "root ", "pkg_mgr"])], ["strip_sigs"]]
            signers = comp
        elif kind == "type_flip_after":
            after = [["type", "key_mgr"]]
        elif kind == "raw_sigs":
            mods = [["version_delta", 1], ["strip_sigs"]]
            signers = comp
            return {"op": "craft", "base": base, "mods": mods, "signers": signers, "raw": True, "kinds": kinds, "dt": dt}
        elif kind == "junk":
            for _ in range(rng.randint(1, 4)):
                after.append(["junk", gen.junk_key(rng, self.keys.pub), gen.junk_entry(rng)])
        elif kind == "tweak":
            i = rng.randrange(nk)
            tw = rng.choice([["flip", "signature", rng.randrange(128), rng.choice("0123456789abcdef")],
                             ["flip", "other_headers", rng.randrange(64), rng.choice("0123456789abcdef")],
                             ["swap_rs"], ["hdr_trailer"], ["hdr_shift", rng.randint(1, 5)], ["to_raw"],
                             ["see_also", hx(40)], ["trunc", "signature", 2], ["ext", "other_headers", "00"]])
            after = [["tweak", i, tw]]
        elif kind == "respell":
            i = rng.randrange(nk)
            after = [["respell", i, rng.choice(gen.SPELLINGS)]]
        elif kind == "misfile":
            after = [["misfile", rng.randrange(nk), rng.randrange(nk)]]
        elif kind == "confuse":
            b = self._base(base)
            ps = [p for p in gen.paths(b) if p]
            p = list(rng.choice(ps))
            old = gen.get_path(b, p)
            if rng.random() < 0.25:
                mods = [["del", p]]
            else:
                mods = [["set", p, gen.confuse(rng, old)]]
            if rng.random() < 0.3:
                p2 = list(rng.choice(ps))
                mods.append(["del", p2] if rng.random() < 0.5 else ["set", p2, gen.confuse(rng, None)])
            if rng.random() < 0.5:
                mods.insert(0, ["version_delta", 1])
            signers = comp if rng.random() < 0.5 else []
        elif kind == "double_count":
            # one signer short of a rule, plus a second spelling of a key that did sign (must not count twice)
            cands = [b_ for b_ in ([["staged"]] if self.staged else []) + [["repo", i] for i in range(len(self.repo_order))][-2:]]
            base = rng.choice(cands) if cands else base
            b = self._base(base)
            try:
                have = [i for i in range(nk) if self.keys.pub[i] in b["signatures"]]
                ts = [b["signed"]["delegations"]["root"]["threshold"], self.head["signed"]["delegations"]["root"]["threshold"]]
                target = max(1, rng.choice([t for t in ts if isinstance(t, int)] or [1]) - 1)
            except (KeyError, TypeError, AttributeError):
                have, target = [], 1
            rng.shuffle(have)
            mods = [["drop_sig", i] for i in have[target:]]
            keep = have[:target]
            if keep:
                after = [["respell", rng.choice(keep), rng.choice(["upper", "first_upper", "upper", "trail_space", "fullwidth1"])]]
                if rng.random() < 0.3:
                    after.append(["respell", rng.choice(keep), rng.choice(["first_upper", "lead_space", "0x"])])
        elif kind == "drop_fields":
            fields = ["type", "version", "timestamp", "expiration", "delegations", "metadata_spec_version"]
            mods = [["del", ["signed", f]] for f in rng.sample(fields, rng.randint(1, 3))]
            if rng.random() < 0.5:
                mods.append(["type", "key_mgr"])
            if rng.random() < 0.5:
                mods.insert(0, ["version_delta", 1])
            signers = comp if rng.random() < 0.5 else []
        elif kind == "drop_root_delegation":
            mods = [["version_delta", 1], rng.choice([["drop_root_delegation"], ["rename_root_delegation", rng.choice(["Root", "root.json", "root "])]]),
                    ["strip_sigs"]]
            signers = comp
        elif kind == "outsider_takeover":
            # keys the attacker made himself: listed nowhere in the trusted root, declared as the new root keys and signing validly
            try:
                listed = set(self.head["signed"]["delegations"]["root"]["pubkeys"])
            except (KeyError, TypeError, AttributeError):
                listed = set()
            out = [i for i in range(nk) if self.keys.pub[i] not in listed][:rng.randint(1, 3)] or [nk - 1]
            if rng.random() < 0.7:
                base = ["trusted", rng.randrange(len(self.clients))]
            mods = [["version_delta", 1], ["root_keys", out], ["root_threshold", rng.randint(1, len(out))], ["strip_sigs"]]
            signers = comp[:rng.randint(0, max(0, len(comp) - 1))] if comp and rng.random() < 0.4 else []
            outsiders = out
        elif kind == "shared_note":
            # the holder of too few keys signs, and files look-alike entries (same unsigned notes / headers, other signature bytes)
            # under the keys he does not hold
            mods = [["version_delta", 1], ["strip_sigs"]]
            signers = comp
            if rng.random() < 0.7:
                base = ["trusted", rng.randrange(len(self.clients))]
            try:
                listed = [i for i in range(nk) if self.keys.pub[i] in self._base(base)["signed"]["delegations"]["root"]["pubkeys"]]
            except (KeyError, TypeError, AttributeError):
                listed = list(range(nk))
            if comp:
                a = comp[0]
                note = rng.choice([self.keys.fpr[a], hx(40), hx(40)])
                after = [["tweak", i, ["see_also", note]] for i in comp if rng.random() < 0.8]
                for b_ in listed:
                    if b_ not in comp:
                        after.append(["clone_under", a, b_, rng.choice([hx(128), hx(128), None])])
        elif kind == "bad_date":
            # a correctly signed successor whose dates do not exist / are not dates
            bad = rng.choice(["2027-02-29T00:00:00Z", "2100-02-29T12:00:00Z", "2031-02-30T00:00:00Z", "2031-04-31T00:00:00Z", "2031-06-31T23:59:59Z",
                              "2031-13-01T00:00:00Z", "2031-00-10T00:00:00Z", "2031-01-01T24:00:00Z", "2031-01-01T00:60:00Z", "2031-01-01T00:00:61Z",
                              "2031-01-32T00:00:00Z", "0000-01-01T00:00:00Z", "2031-01-01T00:00:00", "2031-01-01 00:00:00Z", "2031-01-01T00:00:00+00:00"])
            mods = [["version_delta", 1], ["set", ["signed", rng.choice(["expiration", "expiration", "timestamp"])], bad], ["strip_sigs"]]
            signers = comp
        elif kind == "resign_stale":
            # retired keys (compromised after removal) sign a successor of the *current* head
            mods = [["version_delta", 1], ["strip_sigs"]]
            signers = comp
            base = ["chain", rng.randrange(len(self.honest_chain))]
        if rng.random() < 0.35 and kind not in ("respell", "misfile", "junk", "tweak"):
            # stack a second fault on the unsigned part: a respelled / mis-filed copy of an existing entry, or junk
            b = self._base(base)
            have = [i for i in range(nk) if isinstance(b, dict) and isinstance(b.get("signatures"), dict) and self.keys.pub[i] in b["signatures"]]
            cand = sorted(set(have) | set(signers))
            k2 = rng.choice(["respell", "respell", "misfile", "junk"])
            kinds.append(k2)
            if k2 == "respell" and cand:
                after = after + [["respell", rng.choice(cand), rng.choice(["upper", "first_upper", "upper", "lead_space", "trail_nl", "fullwidth1", "0x"])]]
            elif k2 == "misfile" and cand:
                after = after + [["misfile", rng.choice(cand), rng.randrange(nk)]]
            else:
                after = after + [["junk", gen.junk_key(rng, self.keys.pub), gen.junk_entry(rng)]]
        flood = None
        if rng.random() < (0.5 if kind == "outsider_takeover" else 0.12):
            # the unsigned signature map padded with entries that will be ignored, before or after the real ones
            ns = [7, 8, 9, 9, 10, 12, 30, 99, 100, 101, 130, 1100]
            hv = gen.harvested(4, 5000)
            if hv and rng.random() < 0.5:
                ns = hv
            flood = ["flood", rng.choice(ns), rng.getrandbits(30), rng.random() < 0.7]
            kinds.append("flood")
        op = {"op": "craft", "base": base, "mods": mods, "signers": signers, "mods_after": after, "kinds": kinds, "dt": dt}
        if outsiders:
            op["outsiders"] = outsiders
        if flood:
            op["flood"] = flood
        if rng.random() < 0.15:
            op["hdr"] = hx(rng.choice([2, 12, 70]))
        return op


def _ver(doc):
    try:
        return doc["signed"]["version"]
    except Exception:
        return "?"
