"""W1 / delegation profile: trusted delegating metadata with several roles whose key sets overlap,
untrusted envelopes (delegating metadata or arbitrary payloads) signed by subsets of the key holders, and
the envelope world's Byzantine channel on top.  Every verify_delegation verdict is compared with the
delegation model (DESIGN.md section 5).

Targets: C05 (exactly the named role's keys and threshold), C06 (type bound to role by signed content
alone; strip-monotonicity), C13 error classes.
"""
import copy

import gen
from core import register, Hbytes
from refmodel import counted_keys, independent_entry_valid, keylist_ok, payload_hash, refcanon, threshold_ok
from seams import exc_site
from world_envelope import EnvelopeWorld, ATTACKS

LOOKALIKES = [("pkg_mgr", "Pkg_Mgr"), ("channel-strasse", "channel-stra\u00dfe"), ("\ufb01xes", "fixes"), ("K", "\u212a"), ("\u00e9", "e\u0301"),
              ("pkg_mgr", "pkg_mgr\u200b"), ("key_mgr", "KEY_MGR"), ("a\u0130", "ai\u0307"), ("\uff52oot", "root")]
ROLE_POOL = ["key_mgr", "pkg_mgr", "root", "decoy", "key_mgr ", "Key_mgr", "key_mgr.json", "", "é", "pkg_mgr2", "pkg_mgr.json", "root.json",
             "{}", "{0}", "{role}", "key_mgr{0.x}", "%s", "{", "key_mgr_staging", "subroot"]
MD_TYPES = ["root", "key_mgr", "key_mgr", "pkg_mgr", "Root", "decoy"]


@register
class DelegWorld(EnvelopeWorld):
    name = "deleg"

    @classmethod
    def header(cls, rng, tier, prop):
        h = super().header(rng, tier, prop)
        h["n_keys"] = max(h["n_keys"], 2)
        while len(h["key_seeds"]) < h["n_keys"]:
            h["key_seeds"].append(Hbytes("dkey", rng.getrandbits(64)).hex())
        h["n_ops"] = rng.randint(15, 50) if not h.get("long_lived") else rng.choice([150, 300])
        return h

    def __init__(self, run, header):
        super().__init__(run, header)
        self.trusted = []
        self.md_by_construction = {}     # env index -> payload hash at construction (cleared by any edit: hash differs)
        self.trusted_by_construction = {}

    # ------------------------------------------------------------------ ops
    def _dels(self, spec):
        out = {}
        for role, (idx, t) in spec.items():
            if role == "@many":
                # a document delegating very many roles (the op carries only the count)
                for j in range(idx[0] if idx else 0):
                    out["role-%04d" % j] = {"pubkeys": [self.keys.pub[(j + q) % len(self.keys)] for q in range(1 + j % 2)], "threshold": 1}
                continue
            if role == "@long":
                role = "r" * (idx[0] if idx else 1) + "-mgr"
                idx = idx[1:]
            out[role] = {"pubkeys": [self.keys.pub[i] for i in idx if i < len(self.keys)], "threshold": t}
        return out

    def op_trusted(self, op):
        dels = self._dels(op["dels"])
        if op.get("via") == "builder":
            o = self.calls.raw("build_delegating_metadata", op["type"], dels, op.get("version", 1))
            if not o.ok:
                if not isinstance(o.exc, (TypeError, ValueError)):
                    self.run.violate(("C16", "C13"), "builder-error-class", "build_delegating_metadata raised %r" % (o,),
                                     "build_delegating_metadata:" + o.cls)
                return
            md = o.value
            if md.get("delegations") != dels or md.get("type") != op["type"]:
                self.run.violate(("C16",), "builder-not-faithful", "delegating metadata does not carry its arguments verbatim")
        else:
            md = {"type": op["type"], "version": op.get("version", 1), "metadata_spec_version": op.get("spec", "0.6.0"),
                  "timestamp": "2021-01-01T00:00:00Z", "expiration": "2031-01-01T00:00:00Z", "delegations": dels}
        if op.get("no_version") and md.get("type") != "root":
            md = {k: v for k, v in md.items() if k != "version"}      # legal for non-root metadata: timestamp only
        T = {"signatures": {}, "signed": md}
        if op.get("mal"):
            p, v = op["mal"]
            if p:
                gen.set_path(T, p, v)
                self.run.fault("trusted_malformed")
        self.trusted.append(T)
        if not op.get("mal") and op.get("via") != "builder" and op["type"] in ("root", "key_mgr") and isinstance(op.get("spec", "0.6.0"), str) \
                and all(isinstance(rn, str) and keylist_ok(dd["pubkeys"]) and len(set(dd["pubkeys"])) == len(dd["pubkeys"]) and type(dd["threshold"]) is int
                        and dd["threshold"] >= 1 for rn, dd in dels.items()) and (op["type"] != "root" or not op.get("no_version")):
            # well-formed by construction (documented schema: supported type, a spec-version *string*, well-formed delegations, UTC
            # expiration, version / timestamp) - whatever the library's checker says about it
            self.trusted_by_construction[len(self.trusted) - 1] = payload_hash(T["signed"])

    def op_mutate_trusted(self, op):
        """The client refreshes / edits its trusted document object *in place* (same identity, new content)."""
        n = op["trusted"]
        if n >= len(self.trusted):
            return self.run.ev("noop")
        T = self.trusted[n]
        if op.get("replace_with") is not None and op["replace_with"] < len(self.trusted):
            src = copy.deepcopy(self.trusted[op["replace_with"]])
            T.clear()
            T.update(src)
        elif op.get("path"):
            if op.get("delete"):
                gen.del_path(T, op["path"])
            else:
                gen.set_path(T, op["path"], op["value"])
        self.run.fault("trusted_document_changed_in_place")

    def op_twin_trusted(self, op):
        """The genuine trusted document is used, then a copy in which numbers are respelled as their Python-== twins (2 -> 2.0,
        1 -> True).  The copy is malformed by the documented schema (thresholds and versions are integers).  Every outcome on the
        copy must be what it is on freshly imported library state (C12), and the verifier must not accept under it."""
        e, n = op["env"], op["trusted"]
        if e >= len(self.envs) or n >= len(self.trusted):
            return self.run.ev("noop")
        E, T = self.envs[e], self.trusted[n]
        role, gpg = op["role"], op["gpg"]
        T2 = copy.deepcopy(T)
        changed = False
        try:
            for rname, d in T2["signed"]["delegations"].items():
                t = d.get("threshold")
                if type(t) is int and abs(t) < 2**53 and (op["what"] == "all" or rname == role):
                    d["threshold"] = True if (t == 1 and op.get("as_bool")) else float(t)
                    changed = True
            if op["what"] == "version" and type(T2["signed"].get("version")) is int and abs(T2["signed"]["version"]) < 2**53:
                T2["signed"]["version"] = float(T2["signed"]["version"])
                changed = True
        except (KeyError, TypeError, AttributeError):
            return self.run.ev("noop")
        if not changed:
            return self.run.ev("noop")
        self.run.fault("trusted_twin_numbers")
        # the genuine document first (whatever it is), through the checker and the verifier
        self.calls.raw("checkformat_delegating_metadata", T)
        o = self.calls.call("verify_delegation", role, E, T, gpg=gpg)
        self._judge_deleg(role, E, T, gpg, o, self.env_faults[e], e=e)
        if self.run.stop:
            return
        for name, args, kw in (("checkformat_delegating_metadata", (T2,), {}), ("verify_delegation", (role, E, T2), {"gpg": gpg})):
            if not self.calls._preflight(name, args, kw):
                return
            fresh = self.calls.fresh_outcome(name, args, kw)
            o2 = self.calls.raw(name, *args, **kw)
            mine = (o2.ok, "return" if o2.ok else o2.cls)
            if fresh is not None and fresh != mine:
                self.run.violate(("C12",), "outcome-depends-on-history", "%s on a twin of the trusted document gave %s after the genuine document had "
                                 "been used, but %s on freshly imported library state" % (name, mine[1], fresh[1]), "outcome-depends-on-history:" + name)
                return
            if name == "verify_delegation" and o2.ok and not op.get("as_bool"):      # JSON true for 1: isinstance(True, int) - left unjudged
                self.run.violate(self.history_tag(("C05", "C12"), o2, lambda: self.calls.raw(name, *args, **kw)), "accepted-under-malformed-trusted",
                                 "verify_delegation accepted under a trusted document whose thresholds / version are not integers", "accepted-under-malformed-trusted")
                return

    def op_twin_vdel(self, op):
        """verify_delegation first on a twin of the envelope (one integer respelled as a float, or a CRC twin), then on
        the genuine envelope: the second verdict must not depend on the first."""
        e, n = op["env"], op["trusted"]
        if e >= len(self.envs) or n >= len(self.trusted):
            return self.run.ev("noop")
        E, T = self.envs[e], self.trusted[n]
        tw = self._twin_of(E["signed"], op["kind"])
        if tw is None:
            return self.run.ev("noop")
        role, gpg = op["role"], op["gpg"]
        E2 = {"signatures": copy.deepcopy(E["signatures"]), "signed": tw}
        self.run.fault("twin_payload_" + op["kind"])
        order = [(E2, None), (E, e)] if op.get("twin_first", True) else [(E, e), (E2, None)]
        for X, idx in order:
            o = self.calls.call("verify_delegation", role, X, T, gpg=gpg)
            self._judge_deleg(role, X, T, gpg, o, self.env_faults[e], e=idx)
            if self.run.stop:
                return

    def op_new_md(self, op):
        md = {"type": op["type"], "version": op.get("version", 1), "metadata_spec_version": op.get("spec", "0.6.0"),
              "timestamp": op.get("ts", "2021-01-01T00:00:00Z"), "expiration": op.get("exp", "2031-01-01T00:00:00Z"),
              "delegations": self._dels(op.get("dels", {}))}
        if op.get("extra"):
            md["x-" + str(op["extra"])] = op["extra"]
        if op.get("timestamp_only") and op["type"] != "root":
            del md["version"]
        n_before = len(self.envs)
        self.op_new_env({"payload": md, "gpg": op.get("gpg", False)})
        if len(self.envs) > n_before and op["type"] in ("root", "key_mgr"):
            # well-formed delegating metadata *by construction* (documented schema: supported type, a spec-version
            # string, well-formed delegations, UTC expiration, version and/or timestamp) - whatever the checker says
            self.md_by_construction[len(self.envs) - 1] = payload_hash(self.envs[-1]["signed"])

    def _wf_signed(self, signed):
        o = self.calls.raw("checkformat_delegating_metadata", {"signatures": {}, "signed": copy.deepcopy(signed)})
        return o.ok

    def op_vdel(self, op):
        e, n = op["env"], op["trusted"]
        if e >= len(self.envs) or n >= len(self.trusted):
            return self.run.ev("noop")
        E, T = self.envs[e], self.trusted[n]
        role, gpg = op["role"], op["gpg"]
        o = self.calls.call("verify_delegation", role, E, T, gpg=gpg)
        self._judge_deleg(role, E, T, gpg, o, self.env_faults[e], e=e)

    def _judge_deleg(self, role, E, T, gpg, o, faults=(), strip=True, e=None):
        run, lib = self.run, self.lib
        args_ok = type(role) is str and gpg in (True, False)
        wfT = self.calls.raw("checkformat_delegating_metadata", T).ok
        if not wfT and isinstance(T, dict) and T.get("signatures") == {}:
            for n_, h_ in self.trusted_by_construction.items():
                if n_ < len(self.trusted) and self.trusted[n_] is T and isinstance(T.get("signed"), dict):
                    try:
                        if payload_hash(T["signed"]) == h_:
                            wfT = True
                            run.probe("trusted_wellformed_by_construction_but_checker_rejects")
                    except (TypeError, AssertionError):
                        pass
        shape_ok = (type(E) is dict and set(E) == {"signatures", "signed"} and type(E["signatures"]) is dict)
        defects = set()
        accept = False
        plain = True
        k = t = None
        counted = []
        if args_ok and wfT and shape_ok:
            md_wf = isinstance(E["signed"], dict) and self._wf_signed(E["signed"])
            if not md_wf and e is not None and self.md_by_construction.get(e) == payload_hash(E["signed"]):
                md_wf = True
                run.probe("wellformed_by_construction_but_checker_rejects")
            if md_wf and E["signed"]["type"] != role:
                defects.add("mismatch")
            dels = T["signed"]["delegations"]
            if role not in dels:
                defects.add("unknown")
            else:
                d = dels[role]
                t = d["threshold"]
                plain = type(t) is int
                if keylist_ok(d["pubkeys"]) and threshold_ok(t):
                    counted = counted_keys(self.ledger, E["signed"], E["signatures"], d["pubkeys"], gpg)
                    k = len(counted)
                    if k < t:
                        defects.add("sigs")
                else:
                    defects.add("rule")
            accept = not defects
        else:
            defects.add("args")
        margin = max(-2, min(2, k - t)) if k is not None else None
        run.fp("deleg", sorted(defects), o.cls, margin, bool(gpg), sorted(faults)[:2])
        for dname in defects or {"none"}:
            run.probe("deleg_" + dname)
        if o.ok and not accept:
            if defects == {"sigs"}:
                n_ind = sum(1 for kk in sorted(set(T["signed"]["delegations"][role]["pubkeys"]))
                            if kk in E["signatures"] and independent_entry_valid(kk, E["signed"], E["signatures"][kk], gpg))
                if n_ind >= t:
                    from core import HarnessError
                    raise HarnessError("delegation model rejects (sigs) but independent verification counts %d" % n_ind)
            if "mismatch" in defects:
                run.violate(self.history_tag(("C06",), o, lambda: self.calls.raw("verify_delegation", role, E, T, gpg=gpg)), "type-mismatch-accepted",
                            "metadata whose signed portion is well-formed delegating metadata of type %r was accepted as role %r "
                            "(signature map has %d entries, %d of them valid+authorised)"
                            % (E["signed"].get("type"), role, len(E["signatures"]), k or 0), "type-mismatch-accepted")
            else:
                run.violate(self.history_tag(("C05", "C01"), o, lambda: self.calls.raw("verify_delegation", role, E, T, gpg=gpg)), "deleg-accepted-wrongly",
                            "verify_delegation(%r) accepted although the delegation model rejects: %s (valid authorised signers %r, "
                            "threshold %r)" % (role, sorted(defects), k, t), "deleg-accepted:" + "+".join(sorted(defects)))
            return
        if not o.ok and accept and plain:
            site = exc_site(lib, o.exc)
            run.violate(self.history_tag(("C05", "C02"), o, lambda: self.calls.raw("verify_delegation", role, E, T, gpg=gpg)), "deleg-rejected-wrongly",
                        "verify_delegation(%r) raised %s (%s) at %s although the role is delegated and %d >= %d of its keys signed"
                        % (role, o.cls, str(o.exc)[:160], site, k, t), "deleg-rejected:%s@%s" % (o.cls, site))
            return
        if not o.ok and args_ok and wfT and shape_ok and plain and defects <= {"mismatch", "unknown", "sigs"}:
            want = {"mismatch": lib.MetadataVerificationError, "unknown": lib.UnknownRoleError, "sigs": lib.SignatureError}
            allowed = tuple(want[d] for d in defects)
            if not isinstance(o.exc, allowed):
                run.violate(("C13", "C05"), "wrong-error-class",
                            "%s reported as %s" % ("+".join(sorted(defects)), o.cls),
                            "verify_delegation:%s:%s" % ("+".join(sorted(defects)), o.cls))
        if o.ok and strip:
            S = {"signatures": {kk: copy.deepcopy(E["signatures"][kk]) for kk in counted}, "signed": E["signed"]}
            if len(S["signatures"]) != len(E["signatures"]):
                run.probe("strip_removed_entries")
            o2 = self.calls.call("verify_delegation", role, S, T, gpg=gpg)
            if not o2.ok:
                run.violate(("C06",), "strip-not-accepted",
                            "accepted for role %r, but the same envelope stripped of its non-counting entries raised %r" % (role, o2),
                            "strip-not-accepted")

    # ------------------------------------------------------------------ generator
    def _gen_dels(self, rng, nroles=None):
        nk = len(self.keys)
        roles = rng.sample(ROLE_POOL, nroles or rng.randint(1, 4))
        if rng.random() < 0.8 and "key_mgr" not in roles:
            roles[0] = "key_mgr"
        if rng.random() < 0.25:
            roles = [r for r in roles if r != "key_mgr"] + [rng.choice(["key_mgr.json", "key_mgr_staging", "pkg_mgr.json"])]
        if rng.random() < 0.15:
            # two different names that a normalising or case-insensitive reader would take for one
            roles = [r for r in roles if r not in ("pkg_mgr",)] + list(rng.choice(LOOKALIKES))
        spec = {}
        for r in roles:
            idx = sorted(rng.sample(range(nk), rng.randint(0, min(nk, 4))))
            t = rng.choice([1, 1, max(1, len(idx)), rng.randint(1, len(idx) + 1)])
            spec[r] = [idx, t]
        if rng.random() < 0.03:
            spec["@many"] = [[rng.choice([300, 1100, 2500])], 1]
        if rng.random() < 0.03:
            spec["@long"] = [[rng.choice([300, 5000, 70000])] + sorted(rng.sample(range(nk), min(nk, 2))), 1]
        return spec

    def gen(self, rng):
        nk = len(self.keys)
        if not self.trusted or (len(self.trusted) < 3 and rng.random() < 0.05):
            op = {"op": "trusted", "type": rng.choice(["root", "key_mgr"]), "dels": self._gen_dels(rng),
                  "version": rng.choice([1, 2, 7]), "via": rng.choice(["builder", "direct"]), "no_version": rng.random() < 0.2}
            if rng.random() < 0.3:
                op["spec"] = rng.choice(["0.0.5", "0.0.12", "0.1.0", "1.0.0", "0.6.1", "0.5"] + gen.REDOS[:4])
                op["via"] = "direct"
            if rng.random() < 0.12:
                fake = {"signatures": {}, "signed": {"type": "root", "version": 1, "metadata_spec_version": "0.6.0",
                        "timestamp": "", "expiration": "", "delegations": self._dels(op["dels"])}}
                ps = [p for p in gen.paths(fake) if p]
                p = list(rng.choice(ps))
                op["mal"] = [p, gen.confuse(rng, gen.get_path(fake, p))]
                op["via"] = "direct"
            return op
        r = rng.random()
        if len(self.envs) < 3 and (not self.envs or r < 0.12):
            if rng.random() < 0.7:
                T = rng.choice(self.trusted)
                roles = list(T["signed"].get("delegations", {}).keys()) if isinstance(T.get("signed"), dict) and isinstance(T["signed"].get("delegations"), dict) else []
                typ = rng.choice(MD_TYPES + roles + roles)
                op = {"op": "new_md", "type": typ, "dels": self._gen_dels(rng, rng.randint(0, 2)) if rng.random() < 0.7 else {},
                      "version": rng.choice([1, 3]), "gpg": rng.random() < self.h["gpg_bias"]}
                if rng.random() < 0.35:
                    op["spec"] = rng.choice(["0.6.0", "0.1.0", "0.0.5", "1.0.0", "2.3.4", "0.6", "v0.6.0", "0.6.0-rc1", "", "é", "1.0.0rc1", "0.6.0.post1", "1.0"] + gen.REDOS[:7])
                if rng.random() < 0.3:
                    op["ts"] = rng.choice(["2024-02-29T23:59:59Z", "1999-12-31T23:59:59Z", "2020-02-29T00:00:00Z", "1970-01-01T00:00:00Z", "2038-01-19T03:14:08Z",
                                           "9999-12-31T23:59:59Z", "0001-01-01T00:00:00Z", "2025-12-29T12:00:00Z", "2021-03-28T01:30:00Z", "2016-12-31T23:59:59Z"])
                if rng.random() < 0.3:
                    op["exp"] = rng.choice(["2025-02-28T23:59:59Z", "2024-02-29T00:00:00Z", "1999-12-31T23:59:59Z", "9999-12-31T23:59:59Z", "2038-01-19T03:14:07Z",
                                            "1970-01-01T00:00:00Z", "0001-01-01T00:00:00Z", "2027-01-01T00:00:00Z", "2100-02-28T00:00:00Z", "2023-10-29T01:30:00Z"])
                if rng.random() < 0.25:
                    op["extra"] = rng.choice(["note", 7, "é", "中文", "\udc80", "\U0001f600", "comment with spaces"])
                if rng.random() < 0.1:
                    op["timestamp_only"] = True
                return op
            return {"op": "new_env", "payload": gen.gen_payload(rng, self.h.get("nonfinite", True)),
                    "gpg": rng.random() < self.h["gpg_bias"]}
        if r < 0.45:
            e = rng.randrange(len(self.envs))
            n = rng.randrange(len(self.trusted))
            T = self.trusted[n]
            E = self.envs[e]
            try:
                roles = list(T["signed"]["delegations"].keys())
            except (KeyError, TypeError, AttributeError):
                roles = []
            own = E["signed"].get("type") if isinstance(E["signed"], dict) else None
            cands = roles + roles + ([own] if isinstance(own, str) else []) + [rng.choice(ROLE_POOL)]
            role = rng.choice(cands) if cands else "key_mgr"
            if rng.random() < 0.03:
                role = rng.choice([None, 5, ["key_mgr"], b"key_mgr".decode()])
            gpg = self.env_gpg[e] if rng.random() < 0.9 else (not self.env_gpg[e])
            if rng.random() < 0.02:
                gpg = rng.choice([None, 1, 0, "yes"])
            if rng.random() < 0.06 and isinstance(role, str) and gpg in (True, False):
                return {"op": "twin_trusted", "role": role, "env": e, "trusted": n, "gpg": gpg, "what": rng.choice(["role", "all", "all", "version"]),
                        "as_bool": rng.random() < 0.3}
            if rng.random() < 0.12 and isinstance(role, str) and gpg in (True, False):
                return {"op": "twin_vdel", "role": role, "env": e, "trusted": n, "gpg": gpg, "kind": rng.choice(["pyeq", "pyeq", "crc"]),
                        "twin_first": rng.random() < 0.7}
            return {"op": "vdel", "role": role, "env": e, "trusted": n, "gpg": gpg}
        if r < 0.50 and self.trusted:
            n = rng.randrange(len(self.trusted))
            T = self.trusted[n]
            if rng.random() < 0.3 and len(self.trusted) > 1:
                return {"op": "mutate_trusted", "trusted": n, "replace_with": rng.randrange(len(self.trusted))}
            ps = [p for p in gen.paths(T) if p]
            if ps:
                p = list(rng.choice(ps))
                if rng.random() < 0.3:
                    return {"op": "mutate_trusted", "trusted": n, "path": p, "delete": True}
                return {"op": "mutate_trusted", "trusted": n, "path": p, "value": gen.confuse(rng, gen.get_path(T, p))}
        # signing biased towards the keys some trusted role lists
        if r < 0.62 and self.envs:
            e = rng.randrange(len(self.envs))
            T = rng.choice(self.trusted)
            pubs = []
            try:
                for d in T["signed"]["delegations"].values():
                    pubs += d["pubkeys"]
            except (KeyError, TypeError, AttributeError):
                pass
            idx = [self.keys.pub.index(p) for p in pubs if p in self.keys.pub] or list(range(nk))
            gpg = self.env_gpg[e]
            impl = rng.choice(["simgpg", "lib-gpg", "indep-pgp"] if gpg else ["lib-raw", "lib-raw", "indep-raw"])
            return {"op": "sign", "env": e, "key": rng.choice(idx), "impl": impl}
        return super().gen(rng)

    def finish(self):
        super().finish()
        if self.run.stop:
            return
        # quiescence: every envelope against every trusted document for each of its roles and the envelope's own type
        for e, E in enumerate(self.envs):
            for T in self.trusted:
                try:
                    roles = list(T["signed"]["delegations"].keys())
                except (KeyError, TypeError, AttributeError):
                    roles = ["key_mgr"]
                if isinstance(E["signed"], dict) and isinstance(E["signed"].get("type"), str):
                    roles.append(E["signed"]["type"])
                for role in sorted(set(r for r in roles if isinstance(r, str)))[:5]:
                    gpg = self.env_gpg[e]
                    o = self.calls.call("verify_delegation", role, E, T, gpg=gpg)
                    self._judge_deleg(role, E, T, gpg, o, self.env_faults[e], e=e)
                    if self.run.stop:
                        return
