#!/venv/bin/python
"""MANIFEST.setup_cmd: offline sanity of the tool chain.  Builds nothing (pure Python), downloads nothing,
keeps nothing under /tmp."""
import os
import shutil
import subprocess
import sys

HERE = os.path.dirname(os.path.abspath(__file__))
sys.path.insert(0, HERE)
sys.dont_write_bytecode = True
ok = True
for fn in sorted(os.listdir(HERE)):
    if fn.endswith(".py"):
        try:
            compile(open(os.path.join(HERE, fn), encoding="utf-8").read(), fn, "exec")
        except SyntaxError as e:
            print("compile error:", fn, e)
            ok = False
import seams  # noqa: E402
lib = seams.load_library()
print("library imported from", lib.dir)
import rfc8032  # noqa: E402
rfc8032.selftest()
print("independent ed25519 self-test ok")
gpg = shutil.which("gpg")
if gpg:
    v = subprocess.run([gpg, "--version"], capture_output=True, text=True).stdout.splitlines()[0]
    print("gpg:", v)
else:
    print("gpg: not found (real-GnuPG legs will be skipped with a note in the evidence)")
sys.exit(0 if ok else 1)
