"""Stand-in for the optional dependency `securesystemslib` (not installed, not in the offline wheelhouse).
Only what conda_content_trust.root_signing touches: `formats` and `gpg.functions`.  The GnuPG work is done by
the real `gpg` binary through /verif/sim/pgp.py (OpenPGP packet parser).  Used by the CLI legs of the checks
via PYTHONPATH; never installed into /venv."""
