"""Subset of securesystemslib.gpg.constants used by callers of the EdDSA verification helper."""
SHA1 = 0x02
SHA256 = 0x08
SHA512 = 0x0A
PACKET_TYPE_SIGNATURE = 0x02
SIGNATURE_TYPE_BINARY = 0x00
