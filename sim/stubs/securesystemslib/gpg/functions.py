import os
import sys

_SIM = os.path.dirname(os.path.dirname(os.path.dirname(os.path.dirname(os.path.abspath(__file__)))))
if _SIM not in sys.path:
    sys.path.append(_SIM)
import pgp  # noqa: E402

_B = None


def _backend():
    global _B
    if _B is None:
        home = os.environ.get("GNUPGHOME")
        _B = pgp.RealGpg(os.environ.get("VERIF_REPO", "/repo"), home=home)
        if not _B.ok:
            raise ImportError("gpg back end unusable: " + _B.reason)
        _B.time = int(os.environ.get("VERIF_GPG_TIME", "1700000000"))
    return _B


def create_signature(content, keyid=None, homedir=None):
    return _backend().create_signature(content, keyid)


def export_pubkey(keyid, homedir=None):
    return _backend().export_pubkey(keyid)
