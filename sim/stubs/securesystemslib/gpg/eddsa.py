"""Stand-in for securesystemslib.gpg.eddsa: verify_signature() with the real library's calling convention
(returns True / False, never raises for a bad signature).  Pure Python (hashlib + /verif/sim/rfc8032.py)."""
import hashlib
import os
import struct
import sys

_SIM = os.path.dirname(os.path.dirname(os.path.dirname(os.path.dirname(os.path.abspath(__file__)))))
if _SIM not in sys.path:
    sys.path.append(_SIM)
import rfc8032  # noqa: E402

from . import constants  # noqa: E402


def verify_signature(signature_object, pubkey_info, content, hash_algorithm_id):
    if hash_algorithm_id != constants.SHA256:
        raise ValueError("only SHA-256 is supported")
    headers = bytes.fromhex(signature_object["other_headers"])
    h = hashlib.sha256()
    h.update(bytes(content))
    h.update(headers)
    h.update(b"\x04\xff")
    h.update(struct.pack(">I", len(headers)))
    q = bytes.fromhex(pubkey_info["keyval"]["public"]["q"])
    return rfc8032.verify(q, h.digest(), bytes.fromhex(signature_object["signature"]))
