#!/venv/bin/python
"""Import seeded changes written by independent sub-agents.

  seedtool.py verify <worktree> <SEED_X> <property> <id>
      confirms, in the scratch worktree itself: patch applies to the clean checkout; the pinned suite still passes
      (every stable_pass test of /root/.vp/BASELINE.json); the demonstration fails with the patch and passes
      without it.  On success copies patch.diff, the demonstration and notes.md to /verif/seeded/<id>/ and writes
      meta.json.  The worktree is left clean.
"""
import json
import os
import shutil
import subprocess
import sys
import xml.etree.ElementTree as ET

PY = "/venv/bin/python"


def sh(cmd, cwd, env=None, timeout=1800):
    e = dict(os.environ)
    e.update(env or {})
    return subprocess.run(cmd, cwd=cwd, env=e, capture_output=True, text=True, timeout=timeout)


def suite_ok(wt):
    base = json.load(open("/root/.vp/BASELINE.json"))
    xml = os.path.join(wt, ".seed_junit.xml")
    sh([PY, "-m", "pytest", "-q", "-p", "no:cacheprovider", "--timeout=900", "--benchmark-disable",
        "--continue-on-collection-errors", "--junitxml=" + xml], wt, {"PYTHONPATH": wt, "PYTHONDONTWRITEBYTECODE": "1"})
    passed = set()
    for tc in ET.parse(xml).getroot().iter("testcase"):
        if not list(tc):
            passed.add(tc.get("classname") + "::" + tc.get("name"))
    os.remove(xml)
    missing = [t for t in base["stable_pass"] if t not in passed]
    return not missing, missing, len(passed)


def demo(wt, seed):
    p = sh([PY, "-m", "pytest", "-q", "-p", "no:cacheprovider", "--timeout=600", "-x", os.path.join(seed, "demo_test.py")], wt,
           {"PYTHONPATH": wt, "PYTHONDONTWRITEBYTECODE": "1"}, timeout=900)
    return p.returncode, (p.stdout + p.stderr)[-600:]


def verify(wt, seed, prop, sid):
    out = {"id": sid, "property": prop}
    sh(["git", "checkout", "--", "conda_content_trust"], wt)
    if sh(["git", "status", "--porcelain", "conda_content_trust"], wt).stdout.strip():
        out["error"] = "worktree not clean"
        return out
    patch = os.path.join(wt, seed, "patch.diff")
    rc_clean, tail_clean = demo(wt, seed)
    out["demo_on_clean_rc"] = rc_clean
    a = sh(["git", "apply", patch], wt)
    if a.returncode != 0:
        out["error"] = "patch does not apply: " + a.stderr[-300:]
        return out
    try:
        ok, missing, npass = suite_ok(wt)
        out["suite_stable_pass_ok"] = ok
        out["suite_missing"] = missing[:5]
        out["suite_passed"] = npass
        rc_seed, tail_seed = demo(wt, seed)
        out["demo_on_seed_rc"] = rc_seed
        out["demo_tail"] = tail_seed[-300:]
    finally:
        sh(["git", "checkout", "--", "conda_content_trust"], wt)
        for root, dirs, files in os.walk(wt):
            for d in list(dirs):
                if d == "__pycache__":
                    shutil.rmtree(os.path.join(root, d), ignore_errors=True)
    out["confirmed"] = bool(ok and rc_clean == 0 and rc_seed != 0)
    if out["confirmed"]:
        dst = os.path.join("/verif/seeded", sid)
        os.makedirs(dst, exist_ok=True)
        for fn in ("patch.diff", "demo_test.py", "notes.md"):
            src = os.path.join(wt, seed, fn)
            if os.path.exists(src):
                shutil.copy(src, os.path.join(dst, fn))
        notes = open(os.path.join(wt, seed, "notes.md"), encoding="utf-8", errors="replace").read() if os.path.exists(os.path.join(wt, seed, "notes.md")) else ""
        meta = {
            "property": prop, "id": sid, "source": "independent sub-agent given only the property text and a scratch worktree",
            "needs": _first_para(notes, ("trigger", "manifest", "need")),
            "confirmed_by": {
                "patch_applies_to": sh(["git", "rev-parse", "HEAD"], wt).stdout.strip(),
                "pinned_suite": "all %d stable_pass tests pass with the change (%d passed in total)" % (64, npass),
                "demonstration": "demo_test.py: exit %d on the clean checkout, exit %d with the change" % (rc_clean, rc_seed),
                "commands": ["git apply patch.diff", "PYTHONPATH=<wt> /venv/bin/python -m pytest -q -p no:cacheprovider --timeout=900 --benchmark-disable",
                             "PYTHONPATH=<wt> /venv/bin/python -m pytest -q -p no:cacheprovider -x <seed>/demo_test.py", "git checkout -- conda_content_trust"],
            },
        }
        json.dump(meta, open(os.path.join(dst, "meta.json"), "w"), indent=1)
    return out


def _first_para(notes, words):
    best = ""
    for para in notes.split("\n\n"):
        low = para.lower()
        if any(w in low for w in words):
            best = " ".join(para.split())
            break
    return best[:700]


if __name__ == "__main__":
    if sys.argv[1] == "verify":
        r = verify(*sys.argv[2:6])
        print(json.dumps(r))
