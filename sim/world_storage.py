"""W2 / storage world.  One directory on a simulated file system (SimFS injected as `open` into the
library's module namespaces).

StorageWorld ("storage"): histories of write / load / add-signature / re-sign / load-write cycles on
metadata files and of repository-side in-place signing of repodata files, followed by the client-side
verification path through a delegation chain (root -> key_mgr -> pkg_mgr).  Fault-free runs use a
strict oracle; fault-injecting runs (I/O errors, short writes, crash before close, flipped stored bytes)
a deliberately relaxed one (old, new or unparsable - never a third value).   Targets C08, C11.

InplaceWorld ("inplace") is the fault-enumeration engine for C18 (see its docstring).
"""
import copy
import json

import gen
import rfc8032
from core import World, register, Hbytes, HarnessError
from refmodel import (Ledger, counted_keys, payload_hash, pgp_digest, refcanon, ref_is_hex, ref_is_raw_entry,
                      typed_eq, ref_is_pgp_entry)
from seams import (InjectedFault, LibCalls, LineTracer, Patcher, SimCrash, SimFS, load_library, exc_site)
from world_envelope import GpgStub, KeyRing

def _sim_fstat_note():
    """os.fstat on simulated descriptors is answered by seams.SimFS.install_fd (same numbers as os.stat on the path)."""


FORMATS = ["canon", "compact", "indent4", "unsorted", "utf8", "crlf", "bom", "utf16", "utf32", "padded", "tabs", "escaped", "indent8", "dupkeys"]


def dump_as(doc, fmt):
    """Serialise a JSON value the way some other tool might have left it on disk."""
    if fmt == "canon":
        return refcanon(doc)
    if fmt == "compact":
        return json.dumps(doc, separators=(",", ":")).encode("ascii")
    if fmt == "indent4":
        return json.dumps(doc, indent=4, sort_keys=True).encode("ascii")
    if fmt == "unsorted":
        return json.dumps(doc, indent=2).encode("ascii")
    if fmt == "utf8":
        try:
            return json.dumps(doc, ensure_ascii=False, indent=1).encode("utf-8")
        except UnicodeEncodeError:
            return json.dumps(doc, indent=1).encode("ascii")
    if fmt == "crlf":
        return json.dumps(doc, indent=2).replace("\n", "\r\n").encode("ascii") + b"\r\n"
    try:
        if fmt == "bom":
            return json.dumps(doc, ensure_ascii=False, indent=2).encode("utf-8-sig")
        if fmt == "utf16":
            return json.dumps(doc, ensure_ascii=False, indent=2).encode("utf-16")
        if fmt == "utf32":
            return json.dumps(doc, ensure_ascii=False).encode("utf-32")
    except UnicodeEncodeError:
        return json.dumps(doc, indent=2).encode("utf-16" if fmt == "utf16" else "utf-8")
    if fmt == "dupkeys" and isinstance(doc, dict) and doc:
        # a member name written twice in one object: the later one is the value (what every JSON parser of the ecosystem does)
        body = json.dumps(doc, indent=2)
        k0 = next(iter(doc))
        decoy = json.dumps(k0) + ": " + json.dumps({"decoy": [1, "x"]} if not isinstance(doc[k0], dict) else "decoy")
        return ("{\n  " + decoy + "," + body[1:]).encode("ascii")
    if fmt == "padded":
        return b"\n\n  " + json.dumps(doc, indent=2, sort_keys=True).encode("ascii") + b"  \n\n\t\n"
    if fmt == "tabs":
        return json.dumps(doc, indent="\t").encode("ascii")
    if fmt == "indent8":
        return json.dumps(doc, indent=8).encode("ascii")
    if fmt == "escaped":
        # every character of every string written as a \\uXXXX escape (member names too)
        txt = json.dumps(doc, indent=1)
        out, i, instr = [], 0, False
        while i < len(txt):
            c = txt[i]
            if c == '"':
                instr = not instr
                out.append(c)
            elif instr and c == "\\":
                out.append(txt[i:i + 2] if txt[i + 1] != "u" else txt[i:i + 6])
                i += 1 if txt[i + 1] != "u" else 5
            elif instr:
                out.append("\\u%04x" % ord(c))
            else:
                out.append(c)
            i += 1
        return "".join(out).encode("ascii")
    return refcanon(doc)


def gen_record(rng, i, nonfinite):
    r = rng.random()
    if r < 0.6:
        rec = {"build": "py%d_%d" % (rng.randint(27, 312), i), "build_number": rng.randint(0, 9),
               "depends": ["python >=3.%d" % rng.randint(6, 12)][:rng.randint(0, 1)], "name": "pkg%d" % rng.randint(0, 3),
               "sha256": "%064x" % rng.getrandbits(256), "size": rng.randint(1, 10**7), "version": "%d.%d" % (rng.randint(0, 3), i)}
        if rng.random() < 0.3:
            rec["extra"] = gen.gen_json(rng, 2, None, nonfinite)
        if rng.random() < 0.15:
            rec["type"] = rng.choice(["app", "pkg_mgr", "root", "key_mgr", 5, None])     # conda's old app packages carried "type": "app"
        return rec
    if r < 0.85:
        return gen.gen_json(rng, 3, None, nonfinite)
    if r < 0.93:
        # a record that is itself shaped like a signed envelope (an index of signed documents; a tool that stores its own signatures)
        inner = gen.gen_json(rng, 2, None, nonfinite)
        sigs = rng.choice([{}, {"%064x" % rng.getrandbits(256): {"signature": "%0128x" % rng.getrandbits(512)}}, {"k": 1}])
        return {"signatures": sigs, "signed": inner}
    # a record that itself looks like delegating metadata of another type
    return {"type": rng.choice(["root", "key_mgr"]), "version": 1, "metadata_spec_version": "0.6.0",
            "timestamp": "2021-01-01T00:00:00Z", "expiration": "2031-01-01T00:00:00Z", "delegations": {}}


def gen_repodata(rng, nonfinite=True, max_art=6):
    doc = {}
    names = []
    for sec, ext in (("packages", ".tar.bz2"), ("packages.conda", ".conda")):
        if sec == "packages.conda" and rng.random() < 0.35:
            continue
        n = rng.choice([0, 1, 2, 3, max_art])
        d = {}
        for i in range(n):
            nm = rng.choice(["a", "b", "pkg", "é", "x y", "\U0001f600"]) + "-%d.%d-%d%s" % (rng.randint(0, 2), i, len(names), ext)
            names.append(nm)
            if d and rng.random() < 0.2:
                d[nm] = copy.deepcopy(rng.choice(list(d.values())))      # identical metadata under another name
            elif d and rng.random() < 0.25:
                # near-duplicate: same identifying fields, one other field differs (rebuild, re-upload, other subdir)
                rec = copy.deepcopy(rng.choice(list(d.values())))
                if isinstance(rec, dict) and rec:
                    k = rng.choice(sorted(rec))
                    if k in ("name", "version", "build"):
                        k = "size"
                    rec[k] = gen.gen_scalar(rng, nonfinite)
                    d[nm] = rec
                else:
                    d[nm] = gen_record(rng, i, nonfinite)
            else:
                d[nm] = gen_record(rng, i, nonfinite)
        doc[sec] = d
    if rng.random() < 0.6:
        doc["info"] = {"subdir": rng.choice(["noarch", "linux-64"])}
    if rng.random() < 0.3:
        doc["repodata_version"] = 1
    if rng.random() < 0.25:
        doc[gen.gen_str(rng, 6) or "x"] = gen.gen_json(rng, 2, None, nonfinite)
    if rng.random() < 0.4:
        # pre-existing signatures section: stale names, other keys, junk
        sig = {}
        for nm in names[:2]:
            sig[nm] = {"%064x" % rng.getrandbits(256): {"signature": "%0128x" % rng.getrandbits(512)}}
        sig["gone-1.0-0.tar.bz2"] = {"%064x" % rng.getrandbits(256): {"signature": "%0128x" % rng.getrandbits(512)}}
        if rng.random() < 0.3:
            sig = rng.choice([[], "x", None, {"junk": 1}])
        doc["signatures"] = sig
    if rng.random() < 0.5:
        items = list(doc.items())
        rng.shuffle(items)
        doc = dict(items)
    return doc


class StorageBase(World):
    def _setup(self, run, header):
        self.lib = load_library()
        self.calls = LibCalls(run, self.lib, header.get("encoding", "utf-8"))
        self.keys = KeyRing(self.lib, header["key_seeds"])
        self.ledger = Ledger()
        self.clock = float(header.get("epoch", 1.6e9))
        self.patch = Patcher()
        self.fs = SimFS(run)
        self.gpgstub = GpgStub(self)
        lib = self.lib
        self.patch.set(lib.root_signing, "SSLIB_AVAILABLE", True)
        self.patch.set(lib.root_signing, "gpg_funcs", self.gpgstub)
        self.fs.install_open(self.patch, lib)
        self.fs.install_stat(self.patch)
        self.fs.install_rename(self.patch)
        self.fs.install_fd(self.patch)
        from seams import SimClockState, install_clock
        self.cstate = SimClockState(self.clock)
        self.cstate.hook = lambda n: setattr(self.cstate, "now", self.fs.now)
        install_clock(self.patch, self.lib, self.cstate)

    def close(self):
        self.patch.restore()


@register
class StorageWorld(StorageBase):
    name = "storage"

    @classmethod
    def header(cls, rng, tier, prop):
        n_keys = rng.choice([2, 3, 4, 5])
        h = {
            "n_ops": rng.randint(6, 28),
            "n_keys": n_keys,
            "key_seeds": [Hbytes("skey", rng.getrandbits(64), i).hex() for i in range(n_keys)],
            "encoding": rng.choice(["utf-8", "ascii", "latin-1"]),
            "faults": rng.random() < 0.4,
            "nonfinite": rng.random() < 0.5,
            "epoch": rng.randint(10**9, 3 * 10**9),
            "focus": "repodata" if prop == "C11" else ("metadata" if rng.random() < 0.7 else "repodata"),
        }
        if prop == "C11" and rng.random() < 0.2:
            h["focus"] = "metadata"
        if rng.random() < 0.3:
            # file names as archives, other platforms and people produce them: decomposed / compatibility characters, case, blanks, dots
            odd = ["cafe\u0301", "\u212b", "\uff46ile", "A", "a b", "a.", ".a", "a..b", "\u00e9", "e\u0301", "\u1e9b\u0323", "x\u200b", "\U0001f600", "-a", "a;b", "%41", "a~1"]
            n1, n2 = rng.sample(odd, 2)
            h["files"] = ["md/%s.json" % n1, "md/%s.json" % n2]
            h["rfiles"] = ["repo/%s/repodata.json" % n1, "repo/%s.json" % n2]
        if tier == "thorough" and rng.random() < 0.25:
            h["n_ops"] = rng.randint(28, 90)
        return h

    def __init__(self, run, header):
        super().__init__(run, header)
        self._setup(run, header)
        self.model = {}          # path -> model value (fault-free) or list of admissible values after a fault
        self.repo_state = {}     # path -> {"orig": doc, "signer": key idx or None}
        self.dirty = set()       # paths whose content is uncertain after an injected failure
        # delegation chain for the client path: root (key 0) -> key_mgr (key 1) -> pkg_mgr (set at signing time)
        self.root_md = None

    # ------------------------------------------------------------------ helpers
    def _strict(self):
        return not self.h.get("faults")

    def _check_file(self, path, value, what):
        got = self.fs.get(path)
        exp = refcanon(value)
        if got != exp:
            self.run.violate(("C08", "C11", "C07"), "file-not-canonical",
                             "%s: file bytes differ from the canonical serialization of the value written" % what, "file-not-canonical")
            return False
        return True

    def _verdicts(self, E):
        """Verdict vector of an envelope: every key alone and all keys at thresholds 1..n+1, both modes."""
        out = []
        pubs = list(self.keys.pub)
        if not (isinstance(E, dict) and set(E) == {"signatures", "signed"} and isinstance(E["signatures"], dict)):
            return None
        for gpg in (False, True):
            for p in pubs:
                out.append(self.calls.call("verify_signable", E, [p], 1, gpg=gpg).ok)
            for t in range(1, len(pubs) + 2):
                out.append(self.calls.call("verify_signable", E, pubs, t, gpg=gpg).ok)
        return out

    def _model_verdicts(self, E):
        out = []
        pubs = list(self.keys.pub)
        for gpg in (False, True):
            for p in pubs:
                out.append(len(counted_keys(self.ledger, E["signed"], E["signatures"], [p], gpg)) >= 1)
            k = len(counted_keys(self.ledger, E["signed"], E["signatures"], pubs, gpg))
            for t in range(1, len(pubs) + 2):
                out.append(k >= t)
        return out

    def _arm(self, op):
        """Install the op's fault plan (fault-injecting configuration only)."""
        f = op.get("fault")
        self.fs.plan = {}
        self.fs.short = {}
        self.fs.partial = {}
        if f and self.h.get("faults"):
            at = self.fs.counter + f["at"]
            if f["kind"] == "PARTIAL":
                # not an error: the kernel takes only part of one write (RLIMIT_FSIZE boundary, quota, signal); a correct
                # writer notices the short count and completes the write - the operation must still succeed in full
                self.fs.partial[at] = f.get("n", 1) or 1
                self.run.fault("partial_write_accepted_by_kernel")
                return False
            self.fs.plan[at] = f["kind"]
            if f["kind"] == "SHORT":
                self.fs.short[at] = f.get("n", 0)
            return True
        return False

    def _crash(self, path, op):
        """The process dies here.  Only a file that is open for (truncating) write at that instant is affected:
        it survives with its old content, empty, or as the prefix written so far."""
        if path not in self.fs.open_for_write:
            return
        outs = self.fs.crash_outcomes(path)
        pick = outs[op.get("crash_pick", 0) % len(outs)]
        if pick is None:
            self.fs.files.pop(path, None)
        else:
            self.fs.files[path] = bytes(pick)
        self.fs.open_for_write.discard(path)
        self.fs.volatile.pop(path, None)

    def _after_fault(self, path, old_bytes, new_value, what, have_new=True):
        """Relaxed oracle: after an injected failure or crash the file is byte-equal to the old content, or to the
        new content, or does not parse (empty / prefix); never a third value."""
        got = self.fs.get(path)
        admissible = [old_bytes]
        if have_new:                       # note: None (JSON null) is a perfectly good new value
            nb = refcanon(new_value)
            admissible.append(nb)
        else:
            nb = None
        if got in admissible:
            return
        try:
            val = json.loads(got.decode("utf-8")) if got is not None else None
        except (ValueError, UnicodeDecodeError):
            self.run.probe("torn_file_unparsable")
            return
        if got is None:
            return
        # parses but is neither old nor new
        if nb is not None and nb.startswith(got):
            self.run.probe("torn_file_parsable_prefix")   # e.g. b"1" is a prefix of b"12": legitimately parsable
            return
        self.run.violate(("C08",), "third-value-after-fault",
                         "%s: after an injected failure the file holds a value that is neither the old nor the new one" % what,
                         "third-value-after-fault")

    # ------------------------------------------------------------------ metadata ops (C08)
    def apply(self, op):
        getattr(self, "op_" + op["op"])(op)
        self.fs.plan = {}
        self.fs.short = {}
        self.fs.partial = {}

    def op_write(self, op):
        path, value = op["file"], op["value"]
        old = self.fs.get(path)
        armed = self._arm(op)
        o = self.calls.raw("write_metadata_to_file", copy.deepcopy(value), path)
        if isinstance(o.exc, SimCrash):
            # crash: a file opened with truncation and not yet closed survives as old / empty / prefix
            self._crash(path, op)
            self.run.fault("crash_during_write")
            self._after_fault(path, old, value, "write")
            self.model.pop(path, None)
            self.dirty.add(path)
            return
        if not o.ok:
            if armed and self.fs.fired:
                self._after_fault(path, old, value, "write")
                self.model.pop(path, None)
                self.dirty.add(path)
                return
            self.run.violate(("C08",), "write-failed", "write_metadata_to_file raised %r" % (o,), "write-failed:" + o.cls)
            return
        if self._check_file(path, value, "write"):
            self.model[path] = copy.deepcopy(value)
            self.dirty.discard(path)

    def op_load(self, op):
        path = op["file"]
        if path not in self.model:
            return self.run.ev("noop")
        armed = self._arm(op)
        o = self.calls.raw("load_metadata_from_file", path)
        if not o.ok:
            if armed and self.fs.fired:
                self.run.probe("load_failed_under_fault")
                return
            self.run.violate(("C08",), "load-failed", "load_metadata_from_file raised %r" % (o,), "load-failed:" + o.cls)
            return
        if armed and self.fs.fired:
            # a short read may legitimately yield a parsable prefix; nothing else may differ
            if not typed_eq(o.value, self.model[path]):
                if refcanon(self.model[path]).startswith(refcanon_safe(o.value)):
                    self.run.probe("short_read_parsable_prefix")
                    return
        if not typed_eq(o.value, self.model[path]) or refcanon(o.value) != refcanon(self.model[path]):
            self.run.violate(("C08",), "load-differs", "loaded value differs from the value written (as JSON values / canonical bytes)",
                             "load-differs")

    def op_load_edit_discard(self, op):
        """A caller loads a file, edits the returned object in place (an abandoned draft, an unsaved signature) and drops
        it.  The next load must again be the file's content: loading never hands out shared state."""
        path = op["file"]
        if path not in self.model:
            return self.run.ev("noop")
        lo = self.calls.raw("load_metadata_from_file", path)
        if not lo.ok:
            self.run.violate(("C08",), "load-failed", "load_metadata_from_file raised %r" % (lo,), "load-failed:" + lo.cls)
            return
        v = lo.value
        if isinstance(v, dict):
            v["__draft__"] = 1
            if isinstance(v.get("signatures"), dict):
                v["signatures"]["%064x" % 5] = {"signature": "%0128x" % 6}
            if isinstance(v.get("signed"), dict):
                v["signed"]["__draft__"] = True
        elif isinstance(v, list):
            v.append("__draft__")
        else:
            return self.run.ev("noop")
        del lo, v
        self.run.probe("draft_edited_and_discarded")
        lo2 = self.calls.raw("load_metadata_from_file", path)
        if not lo2.ok or not typed_eq(lo2.value, self.model[path]) or refcanon(lo2.value) != refcanon(self.model[path]):
            self.run.violate(("C08", "C12"), "load-returns-shared-state",
                             "after a caller edited (and discarded) a loaded value, loading the unchanged file again returns the edited value",
                             "load-returns-shared-state")

    def op_rewrite_same_size(self, op):
        """Overwrite a file with a different value of exactly the same serialized size within the same simulated second
        (a key swap, a single-digit version bump) and load it back."""
        path = op["file"]
        old = self.model.get(path)
        if old is None:
            return self.run.ev("noop")
        new = copy.deepcopy(old)
        cands = []
        for p in gen.paths(new):
            if not p:
                continue
            x = gen.get_path(new, p)
            if type(x) is int and 0 <= x <= 8:
                cands.append((p, x + 1))
            elif type(x) is str and x and x[-1] in "abcdefghijklmnopqrstuvwxy012345678":
                cands.append((p, x[:-1] + chr(ord(x[-1]) + 1)))
        if not cands:
            return self.run.ev("noop")
        p, nv = cands[op.get("pick", 0) % len(cands)]
        gen.set_path(new, list(p), nv)
        if len(refcanon(new)) != len(refcanon(old)) or refcanon(new) == refcanon(old):
            return self.run.ev("noop")
        # make sure the library has seen the old content first
        self.calls.raw("load_metadata_from_file", path)
        t_before = int(self.fs.mtime.get(path, 0))
        if op.get("keep_mtime"):
            # not the library: another process puts the new content in place (same inode, same size) and carries the old
            # modification time over to the nanosecond (cp -p, rsync -t, a downloader applying Last-Modified)
            m = self.fs.mtime.get(path)
            self.fs.files[path] = refcanon(new)
            if m is not None:
                self.fs.mtime[path] = m
            self.run.fault("file_replaced_same_size_same_mtime")
            self.model[path] = new
            lo = self.calls.raw("load_metadata_from_file", path)
            if not lo.ok or not typed_eq(lo.value, new) or refcanon(lo.value) != refcanon(new):
                self.run.violate(self.history_tag(("C08", "C04", "C11"), lo, lambda: self.calls.raw("load_metadata_from_file", path)) if lo.ok else ("C08", "C04"),
                                 "load-differs", "after the file was replaced by content of the same size with the same modification time, loading it returns "
                                 "what the file held before", "load-differs")
            return
        self.fs.tick = 0.0 if op.get("same_instant") else self.fs.tick
        w = self.calls.raw("write_metadata_to_file", copy.deepcopy(new), path)
        self.fs.tick = 0.3
        if not w.ok:
            self.run.violate(("C08",), "write-failed", "write_metadata_to_file raised %r" % (w,), "write-failed:" + w.cls)
            return
        self.model[path] = new
        if int(self.fs.mtime.get(path, 0)) == t_before:
            self.run.probe("same_size_same_second_rewrite")
        lo = self.calls.raw("load_metadata_from_file", path)
        if not lo.ok or not typed_eq(lo.value, new) or refcanon(lo.value) != refcanon(new):
            self.run.violate(("C08", "C04"), "load-differs", "after rewriting a file with different content of the same size, loading it returns "
                             "something other than what was written (stale?)", "load-differs")

    def op_write_twin(self, op):
        """Overwrite a file with a value that is == in Python and of the same serialized length, but a different JSON
        value (an integral float and an integer swap spellings)."""
        path = op["file"]
        base = copy.deepcopy(op["value"])
        holder = base["signed"] if isinstance(base, dict) and isinstance(base.get("signed"), dict) else None
        if holder is None:
            return self.run.ev("noop")
        holder["fa"] = float(op["a"])
        holder["ib"] = int(op["b"])
        v1 = base
        v2 = copy.deepcopy(base)
        h2 = v2["signed"]
        h2["fa"] = int(op["a"])
        h2["ib"] = float(op["b"])
        if len(refcanon(v1)) != len(refcanon(v2)):
            return self.run.ev("noop")
        for v in (v1, v2):
            w = self.calls.raw("write_metadata_to_file", copy.deepcopy(v), path)
            if not w.ok:
                self.run.violate(("C08",), "write-failed", "write_metadata_to_file raised %r" % (w,), "write-failed:" + w.cls)
                return
            if not self._check_file(path, v, "write (twin value)"):
                self.model.pop(path, None)
                return
            lo = self.calls.raw("load_metadata_from_file", path)
            if not lo.ok or not typed_eq(lo.value, v):
                self.run.violate(("C08",), "load-differs", "after writing a value that is == to the previous content but a different JSON value, "
                                 "loading returns something other than what was written", "load-differs")
                self.model.pop(path, None)
                return
        self.model[path] = v2
        self.dirty.discard(path)
        self.run.probe("twin_value_written")

    def op_write_bad(self, op):
        """A persist attempt that cannot succeed (a draft holding something JSON cannot express) must leave the stored,
        signed file untouched - its trust status must not change."""
        path = op["file"]
        if path not in self.model:
            return self.run.ev("noop")
        before = self.fs.get(path)
        bad = copy.deepcopy(self.model[path])
        kind = op["bad"]
        if isinstance(bad, dict) and isinstance(bad.get("signed"), dict):
            holder = bad["signed"]
        elif isinstance(bad, dict):
            holder = bad
        else:
            bad = holder = {"value": bad}
        if kind == "bytes":
            holder["draft"] = b"raw-bytes"
        elif kind == "set":
            holder["draft"] = {1, 2}
        elif kind == "mixedkeys":
            holder["draft"] = {1: "a", "b": 2}
        elif kind == "circular":
            holder["draft"] = holder
        elif kind == "keyobj":
            holder["draft"] = self.keys.priv[0]
        else:
            deep = cur = []
            for _ in range(100000):
                nxt = []
                cur.append(nxt)
                cur = nxt
            holder["draft"] = deep
        o = self.calls.raw("write_metadata_to_file", bad, path)
        self.run.fault("unserializable_draft_" + kind)
        if o.ok:
            self.run.violate(("C08",), "bad-value-written", "write_metadata_to_file accepted a value JSON cannot express (%s)" % kind, "bad-value-written")
            self.model.pop(path, None)
            return
        if self.fs.get(path) != before:
            self.run.violate(("C08", "C18"), "failed-write-changed-file",
                             "a write that failed (%s: %s) changed the stored file (%d -> %d bytes): a validly signed file lost its trust status"
                             % (kind, o.cls, len(before or b""), len(self.fs.get(path) or b"")), "failed-write-changed-file")
            self.model.pop(path, None)
        else:
            self.run.probe("failed_write_left_file_intact")

    def op_cycle(self, op):
        path = op["file"]
        if path not in self.model:
            return self.run.ev("noop")
        b0 = self.fs.get(path)
        for _ in range(op.get("n", 2)):
            o = self.calls.raw("load_metadata_from_file", path)
            if not o.ok:
                self.run.violate(("C08",), "load-failed", "load_metadata_from_file raised %r" % (o,), "load-failed:" + o.cls)
                return
            w = self.calls.raw("write_metadata_to_file", o.value, path)
            if not w.ok:
                self.run.violate(("C08",), "write-failed", "write_metadata_to_file raised %r" % (w,), "write-failed:" + w.cls)
                return
        self.run.probe("load_write_cycles", op.get("n", 2))
        if self.fs.get(path) != b0:
            self.run.violate(("C08", "C07"), "cycle-changed-bytes", "load/write cycles changed the file (not a fixpoint)", "cycle-changed-bytes")

    def op_new_envelope(self, op):
        path = op["file"]
        E = {"signatures": {}, "signed": op["payload"]}
        self.op_write({"file": path, "value": E})

    def op_addsig(self, op):
        """Add a signature to a stored envelope: raw = load, sign_signable, write; gpg = sign_root_metadata_via_gpg."""
        path, i = op["file"], op["key"]
        E0 = self.model.get(path)
        if not (isinstance(E0, dict) and set(E0) == {"signatures", "signed"} and isinstance(E0["signatures"], dict)) or i >= len(self.keys):
            return self.run.ev("noop")
        pub = self.keys.pub[i]
        old_bytes = self.fs.get(path)
        v_before = self._verdicts(E0) if self._strict() else None
        armed = self._arm(op)
        new = None
        failed = None
        if op.get("impl") == "gpg-file":
            o = self.calls.raw("sign_root_metadata_via_gpg", path, self.keys.fpr[i])
            if not o.ok:
                failed = o
        else:
            lo = self.calls.raw("load_metadata_from_file", path)
            if not lo.ok:
                failed = lo
            else:
                E = lo.value
                s = self.calls.raw("sign_signable", E, self.keys.priv[i])
                if not s.ok:
                    failed = s
                else:
                    ent = E["signatures"].get(pub)
                    if isinstance(ent, dict) and ref_is_raw_entry(ent):
                        self.ledger.record_raw(pub, payload_hash(E["signed"]), ent["signature"])
                    new = E
                    w = self.calls.raw("write_metadata_to_file", E, path)
                    if not w.ok:
                        failed = w
        if failed is not None:
            if isinstance(failed.exc, SimCrash):
                self._crash(path, op)
                self.run.fault("crash_during_addsig")
            if not (armed and self.fs.fired):
                self.run.violate(("C08", "C09"), "addsig-failed", "adding a signature to a stored file raised %r" % (failed,),
                                 "addsig-failed:" + failed.cls)
                return
        if armed and self.fs.fired:
            # relaxed oracle: old content, or unparsable (empty / prefix), or the complete new content
            got = self.fs.get(path)
            if got == old_bytes:
                self.run.probe("fault_left_old_content")
                return
            try:
                json.loads(got.decode("utf-8"))
            except (ValueError, UnicodeDecodeError, AttributeError):
                self.run.probe("torn_file_unparsable")
                self.model.pop(path, None)
                self.dirty.add(path)
                return
            self.run.probe("fault_left_new_content")
            v_before = None
        try:
            cur = json.loads(self.fs.get(path).decode("utf-8"))
        except (ValueError, UnicodeDecodeError, AttributeError):
            self.run.violate(("C08",), "addsig-unparsable", "file does not parse after adding a signature", "addsig-unparsable")
            return
        if self.fs.get(path) != refcanon(cur):
            self.run.violate(("C08", "C07"), "file-not-canonical", "add-signature: file is not in canonical form", "file-not-canonical")
        if not typed_eq(cur.get("signed"), E0["signed"]) or refcanon(cur["signed"]) != refcanon(E0["signed"]):
            self.run.violate(("C08", "C09"), "addsig-changed-payload", "adding a signature changed the stored payload", "addsig-changed-payload")
            return
        for k, v in E0["signatures"].items():
            if k != pub and (k not in cur["signatures"] or refcanon(cur["signatures"][k]) != refcanon(v)):
                self.run.violate(("C08", "C09"), "addsig-altered-entry",
                                 "adding a signature to a stored file altered or dropped a signature already present", "addsig-altered-entry")
                return
        ent = cur["signatures"].get(pub)
        if op.get("impl") == "gpg-file":
            if not ref_is_pgp_entry(ent):
                self.run.violate(("C08", "C10"), "gpg-entry", "GPG path did not store a well-formed OpenPGP entry under q", "gpg-entry")
                return
        elif not (isinstance(ent, dict) and ref_is_raw_entry(ent)):
            self.run.violate(("C08", "C09"), "addsig-entry", "no well-formed entry under the signer's key after add-signature", "addsig-entry")
            return
        self.model[path] = cur
        self.run.probe("signature_added_to_stored_file")
        if v_before is not None:
            # verdicts of the *other* keys are unchanged; the whole vector follows the model
            v_after = self._verdicts(cur)
            mv = self._model_verdicts(cur)
            if v_after != mv:
                self.run.violate(("C08",), "verdict-after-reload", "verdicts on the reloaded envelope differ from the ledger model",
                                 "verdict-after-reload")
            n = len(self.keys)
            for gi in range(2):
                base = gi * (n + n + 1)
                for j in range(n):
                    if j != i and v_before[base + j] != v_after[base + j]:
                        self.run.violate(("C08",), "verdict-changed", "adding key %d's signature changed the verdict for key %d" % (i, j),
                                         "verdict-changed")
                        return

    def op_verdicts(self, op):
        """Verdicts on the in-memory envelope equal verdicts on the envelope loaded from its file."""
        path = op["file"]
        E = self.model.get(path)
        if not (isinstance(E, dict) and set(E) == {"signatures", "signed"}):
            return self.run.ev("noop")
        lo = self.calls.raw("load_metadata_from_file", path)
        if not lo.ok:
            self.run.violate(("C08",), "load-failed", "load_metadata_from_file raised %r" % (lo,), "load-failed:" + lo.cls)
            return
        va, vb = self._verdicts(E), self._verdicts(lo.value)
        self.run.probe("verdict_vectors_compared")
        if va != vb or va != self._model_verdicts(E):
            self.run.violate(("C08",), "verdict-after-reload", "verification verdicts differ between the in-memory envelope and its reloaded file",
                             "verdict-after-reload")

    def op_reformat(self, op):
        """Another tool (an editor, a mirror, a transfer that re-encodes) rewrote the stored file: same JSON value, other bytes
        (BOM, UTF-16/32, CRLF, tabs, escapes, padding).  Loading gives the same value and every verdict is unchanged: a validly
        signed envelope stays accepted (C02), an insufficiently signed one stays rejected (C01)."""
        path = op["file"]
        E = self.model.get(path)
        if E is None or path in self.dirty:
            return self.run.ev("noop")
        try:
            b = dump_as(E, op["fmt"])
            if json.loads(b) != E:
                return self.run.ev("noop")
        except (ValueError, TypeError, UnicodeError, RecursionError):
            return self.run.ev("noop")
        self.fs.put(path, b)
        self.run.fault("file_rewritten_as_" + op["fmt"])
        lo = self.calls.raw("load_metadata_from_file", path)
        signed_ok = isinstance(E, dict) and set(E) == {"signatures", "signed"} and isinstance(E["signatures"], dict)
        if not lo.ok:
            self.run.violate(("C08", "C02") if signed_ok and E["signatures"] else ("C08",), "load-failed",
                             "load_metadata_from_file raised %r for a well-formed JSON file (%s spelling of a document the library wrote)" % (lo, op["fmt"]),
                             "load-failed:" + lo.cls)
            return
        if not typed_eq(lo.value, E):
            self.run.violate(("C08",), "load-differs", "the %s spelling of the stored document loads to another value" % op["fmt"], "load-differs")
            return
        if signed_ok:
            va, vb = self._verdicts(E), self._verdicts(lo.value)
            if va != vb or va != self._model_verdicts(E):
                self.run.violate(("C08", "C02", "C01"), "verdict-after-reload", "verification verdicts differ between the in-memory envelope and its "
                                 "reformatted file (%s)" % op["fmt"], "verdict-after-reload")
        self.fs.put(path, refcanon(E))        # the tool's spelling is replaced by the library's own again (other ops assume files the library wrote)

    def op_corrupt(self, op):
        """Storage fault: one stored bit flips.  The loaded value then either fails to parse or is judged on its own
        merits by the ledger model - a flipped byte can never mint a valid signature."""
        path = op["file"]
        b = self.fs.get(path)
        if not b or not self.h.get("faults"):
            return self.run.ev("noop")
        ba = bytearray(b)
        pos = op["bit"] % (len(ba) * 8)
        ba[pos // 8] ^= 1 << (pos % 8)
        self.fs.put(path, bytes(ba))
        self.run.fault("stored_bit_flip")
        self.model.pop(path, None)
        lo = self.calls.raw("load_metadata_from_file", path)
        if not lo.ok:
            self.run.probe("corrupt_file_unparsable")
            self.dirty.add(path)
            return
        E = lo.value
        if isinstance(E, dict) and set(E) == {"signatures", "signed"} and isinstance(E["signatures"], dict):
            try:
                if self._verdicts(E) != self._model_verdicts(E):
                    self.run.violate(("C08", "C01"), "verdict-after-corruption", "verdicts on a corrupted stored envelope differ from the ledger model",
                                     "verdict-after-corruption")
            except (TypeError, AssertionError):
                pass
        self.dirty.add(path)      # no longer a file the library wrote: excluded until rewritten

    # ------------------------------------------------------------------ repodata ops (C11)
    def _chain(self, signer_idx):
        """root (key 0) -> key_mgr (key 1) -> pkg_mgr = signer.  Built with the library's builders, signed by the
        library's signer, verified by the library: the client path of conda."""
        lib = self.lib
        nk = len(self.keys)
        k_root, k_km = 0, min(1, nk - 1)
        root = self.calls.raw("build_root_metadata", 1, [self.keys.pub[k_root]], 1, [self.keys.pub[k_km]], 1,
                              "2021-01-01T00:00:00Z", "2031-01-01T00:00:00Z")
        km = self.calls.raw("build_delegating_metadata", "key_mgr",
                            {"pkg_mgr": {"pubkeys": [self.keys.pub[signer_idx]], "threshold": 1},
                             "decoy": {"pubkeys": [self.keys.pub[(signer_idx + 1) % nk]], "threshold": 1}},
                            1, "2021-01-01T00:00:00Z", "2031-01-01T00:00:00Z")
        if not root.ok or not km.ok:
            self.run.violate(("C16", "C11"), "builder-failed", "builders raised on plain arguments: %r %r" % (root, km), "builder-failed")
            return None
        R = self.calls.raw("wrap_as_signable", root.value).value
        K = self.calls.raw("wrap_as_signable", km.value).value
        s = self.calls.raw("sign_signable", K, self.keys.priv[k_km])
        if not s.ok:
            self.run.violate(("C09", "C11"), "sign-failed", "sign_signable raised %r" % (s,), "sign-failed:" + s.cls)
            return None
        self.ledger.record_raw(self.keys.pub[k_km], payload_hash(K["signed"]), K["signatures"][self.keys.pub[k_km]]["signature"])
        o = self.calls.call("verify_delegation", "key_mgr", K, R)
        if not o.ok:
            self.run.violate(("C11", "C05", "C02"), "key_mgr-rejected", "honestly signed key_mgr metadata rejected under root: %r" % (o,),
                             "key_mgr-rejected:" + o.cls)
            return None
        return K

    def op_repodata(self, op):
        path = op["file"]
        if op.get("pad_to") and isinstance(op["doc"], dict) and isinstance(op["doc"].get("packages"), dict) \
                and isinstance(op["doc"].get("packages.conda", {}), dict):
            # an index whose *signed* form is exactly a multiple of a block size (4 KiB ... 8 MiB): the op carries only the block size
            doc = copy.deepcopy(op["doc"])
            doc["info"] = {"subdir": "noarch", "pad": ""}
            shaped = copy.deepcopy(doc)
            shaped["signatures"] = {nm: {"0" * 64: {"signature": "0" * 128}} for nm in self._artifacts(doc)}
            try:
                L0 = len(refcanon(shaped))
            except (TypeError, ValueError, AssertionError):
                L0 = None
            if L0 is not None:
                B = op["pad_to"]
                doc["info"]["pad"] = "x" * ((-L0) % B + B * op.get("blocks", 0))
                op = dict(op, doc=doc)
                self.run.probe("index_padded_to_block_multiple")
        self.fs.put(path, dump_as(op["doc"], op.get("fmt", "canon")))
        self.repo_state[path] = {"orig": copy.deepcopy(op["doc"]), "signer": None}
        self.model.pop(path, None)
        self.dirty.discard(path)

    def _artifacts(self, doc):
        arts = {}
        for sec in ("packages", "packages.conda"):
            d = doc.get(sec, {}) if sec == "packages.conda" else doc["packages"]
            for nm, rec in d.items():
                arts[nm] = rec
        return arts

    def op_sign_repo(self, op):
        path, i = op["file"], op["key"]
        st = self.repo_state.get(path)
        if st is None or i >= len(self.keys) or path in self.dirty:
            return self.run.ev("noop")
        pub = self.keys.pub[i]
        orig = st["orig"]
        old_bytes = self.fs.get(path)
        armed = self._arm(op)
        if op.get("via") == "cli":
            keyfile = "keys/k%d.hex" % i
            text = self.keys.seeds[i].hex()
            dress = op.get("dress", "plain")
            text = {"plain": text, "nl": text + "\n", "upper": text.upper() + "\n", "spaces": "  " + text + " \n"}.get(dress, text)
            self.fs.put(keyfile, text.encode())
            o = self.calls.cli_main(["sign-artifacts", path, keyfile])
            if o.ok and o.value not in (None, 0):
                o = type(o)(False, exc=RuntimeError("exit status %r" % (o.value,)))
        else:
            o = self.calls.raw("sign_all_in_repodata", path, self.keys.seeds[i].hex())
        wellformed = isinstance(orig, dict) and isinstance(orig.get("packages"), dict) and \
            isinstance(orig.get("packages.conda", {}), dict)
        if isinstance(o.exc, SimCrash):
            self._crash(path, op)
            self.run.fault("crash_during_sign_repo")
        if armed and self.fs.fired:
            got = self.fs.get(path)
            if got == old_bytes:
                self.run.probe("fault_left_old_content")
                return
            try:
                json.loads(got.decode("utf-8"))
            except (ValueError, UnicodeDecodeError, AttributeError):
                self.run.probe("torn_file_unparsable")
                self.dirty.add(path)
                return
            self.run.probe("fault_left_new_content")   # must then be the complete, fully signed document
        elif not o.ok:
            if wellformed:
                self.run.violate(("C11",), "sign-repo-failed", "signing a well-formed repodata file raised %r" % (o,), "sign-repo-failed:" + o.cls)
            else:
                self.run.probe("malformed_repodata_rejected")
                if self.fs.get(path) != old_bytes:
                    self.run.violate(("C18", "C11"), "failed-signing-changed-file", "signing failed on malformed input but the file changed",
                                     "failed-signing-changed-file")
            return
        if not wellformed:
            self.run.probe("malformed_repodata_signed")
            st["orig"] = None
            self.repo_state.pop(path, None)
            return
        got = self.fs.get(path)
        try:
            cur = json.loads(got.decode("utf-8"))
        except (ValueError, UnicodeDecodeError, AttributeError):
            self.run.violate(("C11", "C08"), "repodata-unparsable", "signed repodata file does not parse", "repodata-unparsable")
            return
        if got != refcanon(cur):
            self.run.violate(("C11", "C07"), "repodata-not-canonical", "signed repodata file is not canonical JSON", "repodata-not-canonical")
            return
        arts = self._artifacts(orig)
        sigs = cur.get("signatures")
        # equal to the original except for its signatures section
        a = {k: v for k, v in cur.items() if k != "signatures"}
        b = {k: v for k, v in orig.items() if k != "signatures"}
        if not typed_eq(a, b) or refcanon(a) != refcanon(b):
            self.run.violate(("C11",), "repodata-content-changed", "signing changed repodata content outside the signatures section",
                             "repodata-content-changed")
            return
        if not isinstance(sigs, dict) or set(sigs) != set(arts):
            self.run.violate(("C11",), "signature-set-wrong",
                             "signatures section does not have exactly one entry per artifact: extra %r missing %r"
                             % (sorted(set(sigs or {}) - set(arts))[:3], sorted(set(arts) - set(sigs or {}))[:3]), "signature-set-wrong")
            return
        for nm, rec in arts.items():
            ent = sigs[nm]
            if not (isinstance(ent, dict) and set(ent) == {pub} and ref_is_raw_entry(ent[pub])):
                self.run.violate(("C11",), "artifact-entry-shape", "artifact %r: entry is not {signer public key: {signature: 128 hex}}" % nm,
                                 "artifact-entry-shape")
                return
            self.ledger.record_raw(pub, payload_hash(rec), ent[pub]["signature"])
            self.libmade_ok = True
        st["signer"] = i
        st["signed_doc"] = cur
        self.run.probe("repodata_signed")
        self.run.probe("artifacts_signed", len(arts))
        if op.get("again"):
            o2 = self.calls.raw("sign_all_in_repodata", path, self.keys.seeds[i].hex())
            if not o2.ok or self.fs.get(path) != got:
                self.run.violate(("C11",), "resign-changed-file", "signing the same repodata again with the same key changed the file",
                                 "resign-changed-file")
                return
            self.run.probe("repodata_signed_again")
        self._client_path(path, op)

    def _client_path(self, path, op):
        st = self.repo_state[path]
        cur, i = st["signed_doc"], st["signer"]
        pub = self.keys.pub[i]
        K = self._chain(i)
        if K is None:
            return
        arts = self._artifacts(cur)
        names = sorted(arts)
        for nm in names:
            rec = arts[nm]
            w = self.calls.raw("wrap_as_signable", rec)
            if not w.ok:
                self.run.violate(("C11",), "wrap-failed", "wrap_as_signable raised on an artifact record: %r" % (w,), "wrap-failed")
                return
            env = w.value
            env["signatures"] = copy.deepcopy(cur["signatures"][nm])
            o = self.calls.call("verify_delegation", "pkg_mgr", env, K)
            looks_md = isinstance(rec, dict) and self.calls.raw("checkformat_delegating_metadata",
                                                                {"signatures": {}, "signed": copy.deepcopy(rec)}).ok
            if looks_md:
                self.run.probe("artifact_record_is_delegating_metadata")
                if o.ok:
                    self.run.violate(("C06",), "type-mismatch-accepted", "artifact record that is delegating metadata of another type accepted as pkg_mgr",
                                     "type-mismatch-accepted")
                continue
            if not o.ok:
                # independent check before raising the alarm: is the stored signature really valid?
                good = rfc8032.verify(bytes.fromhex(pub), refcanon(rec), bytes.fromhex(cur["signatures"][nm][pub]["signature"]))
                # a stored signature that is not over the reference bytes of the record as it stands was made over other bytes (C07, C09),
                # and the file no longer gives the verdicts its in-memory content would (C08)
                self.run.violate(("C11", "C02") if good else ("C11", "C07", "C08", "C09"), "client-rejects-artifact",
                                 "client-side verify_delegation('pkg_mgr') raised %s for artifact %r; independent RFC 8032 check of the "
                                 "stored signature over the record's reference bytes: %s" % (o.cls, nm, "valid" if good else "INVALID"),
                                 "client-rejects-artifact:" + ("valid" if good else "invalid"))
                return
            self.run.probe("client_verified_artifact")
            # decoy role must not accept (other key)
            o3 = self.calls.call("verify_delegation", "decoy", copy.deepcopy(env), K)
            if o3.ok and len(self.keys) > 1:
                self.run.violate(("C05", "C11"), "decoy-role-accepted", "artifact accepted for a role whose key did not sign", "decoy-role-accepted")
                return
        # independent check of a sample of stored signatures (the ledger took them on trust)
        if names:
            nm = names[op.get("sample", 0) % len(names)]
            if not rfc8032.verify(bytes.fromhex(pub), refcanon(arts[nm]), bytes.fromhex(cur["signatures"][nm][pub]["signature"])):
                self.run.violate(("C11", "C07"), "stored-signature-invalid",
                                 "signature stored for artifact %r does not verify over the reference canonical bytes of its record" % nm,
                                 "stored-signature-invalid")
                return
        # metadata-swap attack: A's entry with B's different record must be rejected
        if len(names) >= 2:
            a = names[op.get("swap", 0) % len(names)]
            b = names[(op.get("swap", 0) + 1) % len(names)]
            env = self.calls.raw("wrap_as_signable", arts[b]).value
            env["signatures"] = copy.deepcopy(cur["signatures"][a])
            o = self.calls.call("verify_delegation", "pkg_mgr", env, K)
            same = refcanon(arts[a]) == refcanon(arts[b])
            self.run.fault("metadata_swap")
            if o.ok and not same:
                self.run.violate(("C11", "C01"), "swap-accepted", "artifact %r's signature verified against %r's different metadata" % (a, b),
                                 "swap-accepted")
            if same:
                self.run.probe("swap_identical_metadata")

    def op_edit_repo(self, op):
        """Repository operator adds / removes / edits artifacts between signings."""
        path = op["file"]
        st = self.repo_state.get(path)
        if st is None or path in self.dirty or st.get("signed_doc") is None:
            return self.run.ev("noop")
        doc = copy.deepcopy(st["signed_doc"])
        kind = op["kind"]
        try:
            sec = doc.setdefault(op.get("sec", "packages"), {})
            if kind == "add":
                sec[op["name"]] = op["rec"]
            elif kind == "remove" and sec:
                nm = sorted(sec)[op.get("idx", 0) % len(sec)]
                del sec[nm]
            elif kind == "edit" and sec:
                nm = sorted(sec)[op.get("idx", 0) % len(sec)]
                sec[nm] = op["rec"]
            elif kind == "hotfix" and sec:
                # a repodata patch: same artifact (name, sha256, md5, size), another dependency list / subdir / timestamp
                nm = sorted(sec)[op.get("idx", 0) % len(sec)]
                if not isinstance(sec[nm], dict):
                    return self.run.ev("noop")
                rec = dict(sec[nm])
                rec["depends"] = list(rec.get("depends", [])) + ["hotfix >=%d" % op.get("idx", 0)] if isinstance(rec.get("depends", []), list) else ["hotfix"]
                rec["subdir"] = "noarch" if rec.get("subdir") != "noarch" else "linux-64"
                sec[nm] = rec
            elif kind == "respell_only":
                pass            # nothing changes but the bytes on disk (another tool re-saved the signed file)
            elif kind == "stale":
                doc.setdefault("signatures", {})[op["name"]] = {"%064x" % 7: {"signature": "%0128x" % 9}}
        except (AttributeError, TypeError):
            return self.run.ev("noop")
        # names must stay distinct across the two sections (the property's precondition)
        a, b = doc.get("packages", {}), doc.get("packages.conda", {})
        if isinstance(a, dict) and isinstance(b, dict) and set(a) & set(b):
            return self.run.ev("noop")
        self.fs.put(path, dump_as(doc, op.get("fmt", "canon")))
        if op.get("keep_mtime_of") is not None and path in self.fs.mtime:
            self.fs.mtime[path] = op["keep_mtime_of"]
        self.repo_state[path] = {"orig": doc, "signer": None}
        self.run.probe("repodata_edited_" + kind)

    # ------------------------------------------------------------------ generator
    def gen(self, rng):
        h = self.h
        nk = len(self.keys)
        nonf = h.get("nonfinite", True)
        files = h.get("files") or ["md/a.json", "md/b.json"]
        rfiles = h.get("rfiles") or ["repo/repodata.json", "repo/noarch.json"]
        fault = None
        if h.get("faults") and rng.random() < 0.3:
            fault = {"at": rng.randint(1, 4), "kind": rng.choice(["EIO", "ENOSPC", "EACCES", "EMFILE", "CRASH", "CRASH", "SHORT", "PARTIAL", "PARTIAL"]),
                     "n": rng.choice([0, 1, 7, 100])}
        if h["focus"] == "repodata":
            r = rng.random()
            f = rng.choice(rfiles)
            if f not in self.repo_state or r < 0.12:
                op = {"op": "repodata", "file": f, "doc": gen_repodata(rng, nonf), "fmt": rng.choice(FORMATS)}
                blocks = gen.harvested(512, 32 << 20, around=False)
                if rng.random() < (0.025 if not blocks else 0.05):
                    op["pad_to"] = rng.choice([512, 4096, 4096, 8192, 65536, 65536, 1 << 20, 1 << 22, 1 << 22])
                    if blocks and rng.random() < 0.6:
                        op["pad_to"] = rng.choice(blocks)         # a block / slice / buffer size the code under test itself names
                    op["blocks"] = rng.choice([0, 0, 1]) if op["pad_to"] < (1 << 22) else 0
                    op["fmt"] = "canon"
                    op["doc"].pop("signatures", None)
                return op
            if r < 0.62:
                op = {"op": "sign_repo", "file": f, "key": rng.randrange(nk), "via": rng.choice(["lib", "lib", "cli"]),
                      "again": rng.random() < 0.5, "swap": rng.randint(0, 5), "sample": rng.randint(0, 5),
                      "dress": rng.choice(["plain", "nl", "upper", "spaces"]), "crash_pick": rng.randint(0, 2)}
                if fault:
                    op["fault"] = fault
                return op
            if r < 0.9:
                kind = rng.choice(["add", "remove", "edit", "stale", "hotfix", "hotfix", "respell_only"])
                sec = rng.choice(["packages", "packages.conda"])
                ext = ".tar.bz2" if sec == "packages" else ".conda"
                return {"op": "edit_repo", "file": f, "kind": kind, "sec": sec, "idx": rng.randint(0, 5),
                        "name": "new-%d.0-0%s" % (rng.randint(0, 99), ext), "rec": gen_record(rng, rng.randint(0, 9), nonf),
                        "fmt": rng.choice(FORMATS)}
            return {"op": "repodata", "file": f, "doc": rng.choice([[], {"packages": []}, {"info": {}}, {"packages": {}, "packages.conda": []},
                                                                    "x", {"packages": {"a-1-0.tar.bz2": {}}, "signatures": "stale"}]),
                    "fmt": rng.choice(FORMATS)}
        r = rng.random()
        f = rng.choice(files)
        if f in self.model and rng.random() < 0.06:
            return {"op": "reformat", "file": f, "fmt": rng.choice(FORMATS[1:])}
        if f not in self.model or r < 0.1:
            if rng.random() < 0.75:
                return {"op": "new_envelope", "file": f, "payload": gen.gen_payload(rng, nonf)}
            op = {"op": "write", "file": f, "value": gen.gen_json(rng, 4, None, nonf), "crash_pick": rng.randint(0, 2)}
            if fault:
                op["fault"] = fault
            return op
        if r < 0.45:
            op = {"op": "addsig", "file": f, "key": rng.randrange(nk), "impl": rng.choice(["raw", "raw", "gpg-file"]),
                  "crash_pick": rng.randint(0, 2)}
            if fault:
                op["fault"] = fault
            return op
        if r < 0.6:
            op = {"op": "load", "file": f}
            if fault and fault["kind"] != "CRASH":
                op["fault"] = fault
            return op
        if r < 0.64:
            return {"op": "load_edit_discard", "file": f}
        if r < 0.68:
            return {"op": "rewrite_same_size", "file": f, "pick": rng.randint(0, 20), "same_instant": rng.random() < 0.5, "keep_mtime": rng.random() < 0.4}
        if r < 0.70:
            return {"op": "write_twin", "file": f, "value": {"signatures": {}, "signed": gen.gen_payload(rng, nonf) if rng.random() < 0.5 else {"k": 1}},
                    "a": rng.randint(2, 99), "b": rng.randint(2, 99)}
        if r < 0.72:
            return {"op": "write_bad", "file": f, "bad": rng.choice(["bytes", "set", "mixedkeys", "circular", "keyobj", "deep"])}
        if r < 0.76:
            return {"op": "cycle", "file": f, "n": rng.randint(1, 3)}
        if r < 0.85:
            return {"op": "verdicts", "file": f}
        if r < 0.92 and h.get("faults"):
            return {"op": "corrupt", "file": f, "bit": rng.getrandbits(24)}
        op = {"op": "write", "file": f, "value": {"signatures": {}, "signed": gen.gen_payload(rng, nonf)}, "crash_pick": rng.randint(0, 2)}
        if fault:
            op["fault"] = fault
        return op

    def finish(self):
        self.run.sim_time = self.fs.now - 1700000000.0
        if self._strict():
            for path in sorted(self.model):
                E = self.model[path]
                if isinstance(E, dict) and set(E) == {"signatures", "signed"} and isinstance(E.get("signatures"), dict):
                    self.op_verdicts({"file": path})
                    if self.run.stop:
                        return


def refcanon_safe(v):
    try:
        return refcanon(v)
    except (TypeError, AssertionError):
        return b"\x00"


# ======================================================================================= C18

EXC_CLASSES = ["OSError", "MemoryError", "KeyboardInterrupt", "ValueError", "InjectedFault"]


def _mkexc(name):
    if name == "OSError":
        return OSError(5, "Input/output error (injected)")
    if name == "MemoryError":
        return MemoryError("injected")
    if name == "KeyboardInterrupt":
        return KeyboardInterrupt()
    if name == "ValueError":
        return ValueError("injected")
    return InjectedFault("injected")


class HsmPlan:
    def __init__(self):
        self.count = 0
        self.fail_at = None
        self.events = None      # callable returning the current event list


class HsmKey:
    """Proxy for a private key living in a signing device: the j-th signing request may fail."""

    def __init__(self, real, plan):
        self._real, self._plan = real, plan

    def sign(self, data):
        self._plan.count += 1
        if self._plan.events is not None:
            self._plan.events().append(("call", "hsm-sign"))
        if self._plan.fail_at == self._plan.count:
            raise InjectedFault("HSM: signing request %d failed" % self._plan.count)
        return self._real.sign(data)

    def public_key(self):
        return self._real.public_key()


def make_privkey_shim(real_cls, plan):
    class PrivateKeyShim:
        @classmethod
        def from_hex(cls, h):
            return HsmKey(real_cls.from_hex(h), plan)

        @classmethod
        def from_bytes(cls, b):
            return HsmKey(real_cls.from_bytes(b), plan)

        to_bytes = real_cls.to_bytes
        to_hex = real_cls.to_hex
    return PrivateKeyShim


@register
class InplaceWorld(StorageBase):
    """Fault enumeration for C18.  One scenario per run (sampled); inside a scenario the enumeration is
    exhaustive: every line event executed inside library frames before the output phase, every I/O operation
    before it, every callee-seam call (signing device request per artifact, GnuPG create_signature /
    export_pubkey, availability of the optional dependency) is a fault point exercised in its own re-run.

    Invariants: (1) after a failed call the target's bytes are identical to before; (2) on every run, faulted
    or not: all signatures computed -> final canonserialize returned B -> first opening-for-write -> exactly B
    written -> closed, and no signing or serializing event after the opening.
    """
    name = "inplace"
    shrinkable = False

    @classmethod
    def header(cls, rng, tier, prop):
        return {"n_ops": 2, "n_keys": 2,
                "key_seeds": [Hbytes("ikey", rng.getrandbits(64), i).hex() for i in range(2)],
                "encoding": rng.choice(["utf-8", "ascii"]), "epoch": rng.randint(10**9, 3 * 10**9),
                "classes": EXC_CLASSES if tier == "thorough" else None}

    def __init__(self, run, header):
        super().__init__(run, header)
        self._setup(run, header)
        self.scn = None
        self.hsm = HsmPlan()
        self.hsm.events = lambda: self.fs.events
        for mod in self.lib.modules:
            if mod is not self.lib.common and getattr(mod, "PrivateKey", None) is self.lib.common.PrivateKey:
                self.patch.set(mod, "PrivateKey", make_privkey_shim(self.lib.common.PrivateKey, self.hsm))
        self.n_points = 0
        self.n_compared = 0
        self.kinds = set()

    # ------------------------------------------------------------------ scenario
    def gen(self, rng):
        if self.scn is None:
            kind = rng.choice(["repodata-lib", "repodata-lib", "repodata-cli", "gpg-file", "gpg-cli"])
            op = {"op": "scenario", "kind": kind, "fmt": rng.choice(FORMATS)}
            # where the file lives: publishers sign staged copies, backups and oddly named files too
            if rng.random() < 0.45:
                base = "repodata" if kind.startswith("repodata") else "root"
                op["target"] = rng.choice(["stage/%s.json.tmp", "stage/%s.tmp", "repo/%s.json.partial", "repo/%s.json.bak", "repo/%s.unsigned", "repo/%s",
                                           "repo/.%s.json.swp", "linux-64/%s.json.signing", "repo/%s.json.new", "repo/%s.json~", "repo/1.%s.json", "repo/%s.json.lock",
                                           "%s.json", "repo/%s.JSON", "repo/%s.json.tmp.json"]) % base
            if rng.random() < 0.3:
                op["siblings"] = rng.sample([".tmp", ".bak", ".lock", ".partial", ".new", "~", ".signing", ".orig"], rng.randint(1, 3))
            if kind.startswith("repodata"):
                r = rng.random()
                if r < 0.8:
                    op["doc"] = gen_repodata(rng, True)
                    if not isinstance(op["doc"].get("signatures", {}), dict):
                        op["doc"]["signatures"] = {}
                else:
                    op["doc"] = rng.choice([[], {"info": {}}, {"packages": []}, {"packages": {"a": 1}, "packages.conda": []},
                                            {"packages": {"a-1-0.tar.bz2": {"x": 1}}, "packages.conda": "x"}, 7, "s"])
                if rng.random() < 0.08:
                    op["raw_bytes"] = rng.choice(["", "{", "not json", "{\"packages\": {}", "﻿{}"])
                op["key"] = rng.choice(["good"] * 14 + ["short", "upper", "nonhex", "empty", "missing", "spaces"])
            else:
                op["payload"] = gen.gen_payload(rng, True) if rng.random() < 0.5 else \
                    {"type": "root", "version": 1, "delegations": {}, "x": gen.gen_json(rng, 2)}
                op["presigned"] = rng.random() < 0.5
                op["fpr"] = rng.choice(["good"] * 10 + ["unknown", "upper", "short", "spaces"])
                if rng.random() < 0.08:
                    op["raw_bytes"] = rng.choice(["", "{", "[]", "{\"signed\": 1}", "{\"signatures\": [], \"signed\": 1}"])
            return op
        return {"op": "enumerate", "classes": self.h.get("classes") or [rng.choice(EXC_CLASSES)],
                "rot": rng.randint(0, 4)}

    def apply(self, op):
        getattr(self, "op_" + op["op"])(op)

    def op_scenario(self, op):
        self.scn = op
        self.target = op.get("target") or ("repo/repodata.json" if op["kind"].startswith("repodata") else "md/root.json")
        if "raw_bytes" in op:
            content = op["raw_bytes"].encode("utf-8")
        elif op["kind"].startswith("repodata"):
            content = dump_as(op["doc"], op.get("fmt", "canon"))
        else:
            E = {"signatures": {}, "signed": op["payload"]}
            if op.get("presigned"):
                sig = self.keys.priv[1].sign(pgp_digest(refcanon(E["signed"]), b"\x04\x00"))
                E["signatures"][self.keys.pub[1]] = {"other_headers": "0400", "signature": sig.hex()}
            content = dump_as(E, op.get("fmt", "canon"))
        self.initial = {self.target: content}
        for suffix in op.get("siblings", ()):
            # leftovers of earlier (interrupted) runs or other tools next to the target, under both naming habits
            stem = self.target.rsplit(".", 1)[0] if "." in self.target.rsplit("/", 1)[-1].lstrip(".") else self.target
            for nm in (self.target + suffix, stem + suffix):
                if nm != self.target:
                    self.initial[nm] = b"{\"stale\": true}"
        seed_hex = self.keys.seeds[0].hex()
        k = op.get("key", "good")
        keytext = {"good": seed_hex + "\n", "short": seed_hex[:-2], "upper": seed_hex.upper(), "nonhex": "zz" + seed_hex[2:],
                   "empty": "", "spaces": "  " + seed_hex + "  \n"}.get(k)
        if keytext is not None:
            self.initial["keys/k.hex"] = keytext.encode()
        self.keyhex = {"good": seed_hex, "short": seed_hex[:-2], "upper": seed_hex.upper(), "nonhex": "zz" + seed_hex[2:],
                       "empty": "", "spaces": seed_hex, "missing": seed_hex}.get(k, seed_hex)
        f = self.keys.fpr[0]
        self.fpr = {"good": f, "unknown": "ab" * 20, "upper": f.upper(), "short": f[:-2], "spaces": f[:4] + " " + f[4:]}.get(op.get("fpr", "good"), f)

    def _reset(self):
        fs = self.fs
        fs.files = dict(self.initial)
        fs.volatile.clear(); fs.pre_open.clear(); fs.open_for_write.clear(); fs.written.clear()
        fs.events = []
        fs.plan = {}; fs.short = {}
        fs.counter = 0
        fs.fired = []
        self.hsm.count = 0
        self.hsm.fail_at = None
        self.gpgstub.fail = None
        self.gpgstub.calls = []
        self.lib.root_signing.SSLIB_AVAILABLE = True

    def _invoke(self, tracer=None):
        kind = self.scn["kind"]
        lib = self.lib
        if kind == "repodata-lib":
            f, args = "sign_all_in_repodata", (self.target, self.keyhex)
        elif kind == "repodata-cli":
            f, args = "@cli", (["sign-artifacts", self.target, "keys/k.hex"],)
        elif kind == "gpg-file":
            f, args = "sign_root_metadata_via_gpg", (self.target, self.fpr)
        else:
            f, args = "@cli", (["gpg-sign", self.fpr, self.target],)
        call = (lambda: self.calls.cli_main(args[0])) if f == "@cli" else (lambda: self.calls.raw(f, *args))
        if tracer is not None:
            tracer.events = self.fs.events
            with tracer:
                o = call()
        else:
            o = call()
        return o

    def _order_ok(self, events, o):
        """(2): signatures computed -> final canonserialize -> first open_w(target) -> exactly those bytes -> close."""
        idx = [k for k, e in enumerate(events) if e[0] == "open_w" and e[1] == self.target]
        if not idx:
            return None
        first = idx[0]
        after = events[first + 1:]
        for e in after:
            if e[0] in ("call", "return") and e[1] in ("json-encode", "hsm-sign", "gpg-create-signature", "gpg-export-pubkey"):
                return "%s activity after the output file was opened" % (e[1],)
            if e[0] == "open_r":
                return "file %r opened for reading after the output file was opened" % (e[1],)
        if len(idx) > 1:
            return "target opened for writing %d times" % len(idx)
        before = events[:first]
        if any(e[1] == "json-encode" for e in events if e[0] in ("call", "return")) and not any(e == ("return", "json-encode") for e in before):
            return "output opened before any serialization finished"
        return None

    def _check_after(self, o, before_bytes, label, tracer_events):
        run = self.run
        self.n_points += 1
        opened = any(e[0] == "open_w" and e[1] == self.target for e in self.fs.events)
        msg = self._order_ok(self.fs.events, o)
        if msg:
            run.violate(("C18",), "output-order", "%s: %s" % (label, msg), "output-order")
            return False
        now = self.fs.files.get(self.target)
        failed = (not o.ok) or (self.scn["kind"].endswith("-cli") and o.value not in (None, 0))
        if failed:
            self.n_compared += 1
            if now != before_bytes:
                run.violate(("C18",), "file-changed-after-failure",
                            "%s: the call failed (%s) but the file on disk changed (%d -> %d bytes%s)"
                            % (label, o.cls, len(before_bytes or b""), len(now or b""), ", opened for writing" if opened else ""),
                            "file-changed-after-failure")
                return False
        return True

    def _complete(self, before_bytes):
        """After a call that returned normally: either nothing was written, or the file is completely signed."""
        now = self.fs.files.get(self.target)
        if now == before_bytes:
            return None
        if now is None:
            return "the target file no longer exists under its name"
        try:
            cur = json.loads(now.decode("utf-8"))
        except (ValueError, UnicodeDecodeError):
            return "the file written does not parse"
        if not self.scn["kind"].startswith("repodata"):
            return None
        try:
            arts = set(cur["packages"]) | set(cur.get("packages.conda", {}))
            sigs = cur["signatures"]
            missing = sorted(a for a in arts if a not in sigs or not isinstance(sigs[a], dict) or not sigs[a])
        except (KeyError, TypeError, AttributeError):
            return "the file written has no usable signatures section"
        if missing:
            return "a partially signed file was produced (no signature for %r)" % missing[:3]
        return None

    def op_enumerate(self, op):
        if self.scn is None:
            return self.run.ev("noop")
        run = self.run
        only = op.get("only")
        before_bytes = self.initial[self.target]
        watch = ()
        # ---- clean traced run
        self._reset()
        tr = LineTracer(self.lib.dir, watch=watch)
        o = self._invoke(tr)
        events = list(self.fs.events)
        clean_ok = o.ok
        first_open = next((k for k, e in enumerate(events) if e[0] == "open_w" and e[1] == self.target), None)
        if first_open is None:
            L = tr.n
        else:
            L = sum(1 for p in tr.points if p[3] <= first_open)
        n_io_before = sum(1 for e in events[:first_open if first_open is not None else len(events)] if e[0] in ("open_r",))
        run.probe("scenario_" + self.scn["kind"])
        run.probe("clean_run_succeeded" if clean_ok else "clean_run_failed")
        run.ev("clean", o.cls, "lines", tr.n, "before_output", L)
        if not self._check_after(o, before_bytes, "clean run", events):
            return
        if clean_ok and not only and self.fs.files.get(self.target) != before_bytes:
            # the successful result itself: canonical, parsable
            got = self.fs.files.get(self.target)
            try:
                if refcanon(json.loads(got.decode("utf-8"))) != got:
                    run.violate(("C18", "C11"), "output-not-canonical", "in-place signing wrote a non-canonical file", "output-not-canonical")
                    return
            except (ValueError, UnicodeDecodeError):
                run.violate(("C18",), "output-unparsable", "in-place signing wrote an unparsable file", "output-unparsable")
                return
        plan = []
        classes = op.get("classes") or ["OSError"]
        for i in range(1, L + 1):
            for ci, c in enumerate(classes):
                plan.append(["line", i, c if len(classes) > 1 else EXC_CLASSES[(i + op.get("rot", 0)) % len(EXC_CLASSES)] if not op.get("classes") else c])
        # I/O faults on every fs operation that precedes the output phase
        fs_ops_before = 0
        self._reset()
        self._invoke()
        cnt = 0
        for e in self.fs.events:
            if e[0] == "open_w" and e[1] == self.target:
                break
        # count SimFS._op calls before the first open_w of the target
        self._reset()
        marker = {"n": None}
        orig_op = self.fs._op

        def counting(kind, path):
            if kind == "open_w" and path == self.target and marker["n"] is None:
                marker["n"] = self.fs.counter
            if kind == "write" and path == self.target and marker["n"] is not None and marker.get("w") is None:
                marker["w"] = self.fs.counter
            if marker["n"] is not None and marker.get("w") is None and self.fs.counter > marker["n"]:
                marker.setdefault("between", []).append((self.fs.counter + 1, kind))
            return orig_op(kind, path)
        self.fs._op = counting
        self._invoke()
        self.fs._op = orig_op
        fs_ops_before = marker["n"] if marker["n"] is not None else self.fs.counter
        total_fs_ops = self.fs.counter
        for k in range(1, fs_ops_before + 1):
            for code in ("EIO", "EACCES", "EMFILE", "SHORT0", "SHORT7"):
                plan.append(["io", k, code])
        # callee seams
        if self.scn["kind"].startswith("repodata"):
            for j in range(1, self.hsm.count + 1):
                plan.append(["hsm", j, "InjectedFault"])
        else:
            plan.append(["gpg", "create", ""])
            plan.append(["gpg", "export", ""])
            plan.append(["gpg", "nosslib", ""])
        # whatever the code chooses to do on the opened output before it writes the first byte (take a lock, stat, open a
        # side file ...) can fail, and that is a failure before the output is written: judged
        between = [(k, kd) for k, kd in marker.get("between", []) if kd != "write"]
        for k, kd in between:
            for code in (("EAGAIN", "ENOLCK") if kd == "lock" else ("EIO", "EACCES")):
                plan.append(["io", k, code])
            run.probe("operation_between_open_and_first_write")
        # output-phase faults: outside the property's wording; observed, never judged
        for k in range(fs_ops_before + 1, total_fs_ops + 1):
            if k not in [b[0] for b in between]:
                plan.append(["io_out", k, "ENOSPC"])
        if only:
            plan = [only]
        for item in plan:
            self._reset()
            kind = item[0]
            tracer = None
            if kind == "line":
                tracer = LineTracer(self.lib.dir, watch=watch)
                tracer.inject_at = item[1]
                tracer.inject_exc = _mkexc(item[2])
                run.fault("exc_at_line_" + item[2])
            elif kind in ("io", "io_out"):
                if item[2].startswith("SHORT"):
                    self.fs.plan[item[1]] = "SHORT"
                    self.fs.short[item[1]] = int(item[2][5:])
                else:
                    self.fs.plan[item[1]] = item[2]
                run.fault(("io_" if kind == "io" else "io_output_phase_") + item[2])
            elif kind == "hsm":
                self.hsm.fail_at = item[1]
                run.fault("hsm_failure")
            elif kind == "gpg":
                if item[1] == "nosslib":
                    self.lib.root_signing.SSLIB_AVAILABLE = False
                else:
                    self.gpgstub.fail = item[1]
                run.fault("gpg_" + item[1])
            if tracer is None:
                tracer = LineTracer(self.lib.dir, watch=watch)
            o = self._invoke(tracer)
            self.kinds.add((kind, item[2] if kind != "line" else item[2]))
            if kind == "io_out":
                self.n_points += 1
                if self.fs.files.get(self.target) != before_bytes and not o.ok:
                    run.probe("out_of_scope_torn_file_after_output_phase_fault")
                continue
            if kind == "line" and not tracer.fired:
                continue
            label = "fault %r in scenario %s (key=%s fpr=%s)" % (item, self.scn["kind"], self.scn.get("key"), self.scn.get("fpr"))
            if not self._check_after(o, before_bytes, label, self.fs.events):
                run.narrow = [self.scn, {"op": "enumerate", "only": item, "classes": op.get("classes"), "rot": op.get("rot", 0)}]
                return
            if not o.ok:
                run.probe("failed_call_file_compared")
                run.rejects += 1
            else:
                run.probe("fault_swallowed_call_completed")
                msg = self._complete(before_bytes)
                if msg:
                    run.violate(("C18", "C11"), "partially-signed-file",
                                "%s: the call returned normally but %s" % (label, msg), "partially-signed-file")
                    run.narrow = [self.scn, {"op": "enumerate", "only": item, "classes": op.get("classes"), "rot": op.get("rot", 0)}]
                    return
        run.accepts += 1 if clean_ok else 0
        self.lib.root_signing.SSLIB_AVAILABLE = True

    def finish(self):
        self.run.evals = self.n_points
        self.run.nontrivial_n = self.n_compared
