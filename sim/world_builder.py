"""Builder profile (C16): the metadata constructors under a simulated clock.

The scheduler may move the clock *between the two clock reads of one builder call* (NTP step, VM resume,
bounded by +-30 days), parks the epoch on leap days, year ends, 2038 and year 9998, corrupts one argument
at a time (operator error, labelled as plain input corruption), and closes the chain: roots built by
build_root_metadata, threshold-signed, must verify as successor of the previous one and authorise their
own successor.
"""
import copy
import json
import datetime as _dt

import gen
from core import World, register, Hbytes
from refmodel import pgp_digest, refcanon, typed_eq
from seams import LibCalls, Patcher, SimClockState, load_library, make_clock_class
from world_envelope import KeyRing

EPOCHS = [1582934399, 1583020799, 1709251199, 1735689599, 1704067199, 2147483646, 2147483648, 253339228800 - 5,
          951782399, 1e9, 4102444799, 1456790399]
ISO = "%Y-%m-%dT%H:%M:%SZ"


def parse_iso(s):
    return _dt.datetime.strptime(s, ISO)


@register
class BuilderWorld(World):
    name = "builder"

    @classmethod
    def header(cls, rng, tier, prop):
        return {"n_ops": rng.randint(10, 30), "key_seeds": [Hbytes("bkey", rng.getrandbits(64), i).hex() for i in range(5)],
                "epoch": rng.choice(EPOCHS) if rng.random() < 0.6 else rng.randint(0, 4 * 10**9),
                "utc_offset_h": rng.choice([0, 5.5, -8, 14, -12, 1])}

    def __init__(self, run, header):
        super().__init__(run, header)
        self.lib = load_library()
        self.calls = LibCalls(run, self.lib, "utf-8")
        self.keys = KeyRing(self.lib, header["key_seeds"])
        self.cstate = SimClockState(header["epoch"], header.get("utc_offset_h", 0))
        self.patch = Patcher()
        self.simclock_cls = make_clock_class(self.cstate)
        self.patch.set(self.lib.common, "datetime", self.simclock_cls)
        self.jumps = []
        self.read_times = []
        self.cstate.hook = self._hook
        self.chain = []

    def close(self):
        self.patch.restore()

    def _reinstall_clock(self):
        # reset_library_state() restores module attributes to their import-time values: put the simulated clock back
        self.lib.common.datetime = self.simclock_cls

    def _hook(self, n):
        if self.jumps:
            j = self.jumps.pop(0)
            if j:
                self.cstate.now += j
                self.run.fault("clock_moved_between_reads" if self.read_times else "clock_moved_before_read")
        self.read_times.append(self.cstate.now)

    def apply(self, op):
        dt = op.get("dt", 0)
        self.cstate.now = min(self.cstate.now + dt, 253339228800.0 + 100 * 86400)   # stay below year 9999 - 1 year
        self.run.sim_time += abs(dt)
        getattr(self, "op_" + op["op"])(op)

    # ------------------------------------------------------------------ ops
    def _call_builder(self, fn, args, kw, jumps):
        self.jumps = list(jumps or [])
        self.read_times = []
        self.cstate.local_reads = 0
        o = self.calls.raw(fn, *copy.deepcopy(args), **copy.deepcopy(kw))
        if self.cstate.local_reads:
            self.run.violate(("C16",), "local-time-used", "%s read local time, not UTC" % fn, "local-time-used")
        return o

    def _check_md(self, fn, md, given, plain, o_reads):
        run, lib = self.run, self.lib
        if not isinstance(md, dict):
            run.violate(("C16",), "builder-returned-non-dict", "%s returned %r" % (fn, type(md)))
            return False
        # carried verbatim
        def same(a, b):
            if typed_eq(a, b):
                return True
            # a str subclass / (str, Enum) member given as the type: carried verbatim = equal to it and written to JSON as the same string
            if isinstance(a, str) and isinstance(b, str) and (type(a) is not str or type(b) is not str):
                try:
                    return a == b and json.dumps(a) == json.dumps(b)
                except (TypeError, ValueError):
                    return False
            return False
        for k in ("type", "version", "delegations", "timestamp", "expiration"):
            if k in given and not same(md.get(k), given[k]):
                run.violate(("C16",), "builder-not-faithful", "%s: field %r is %r, given %r" % (fn, k, md.get(k), given[k]),
                            "builder-not-faithful:" + k)
                return False
        if md.get("metadata_spec_version") != lib.common.SECURITY_METADATA_SPEC_VERSION:
            run.violate(("C16",), "spec-version", "%s declares spec version %r" % (fn, md.get("metadata_spec_version")), "spec-version")
            return False
        for k in ("type", "version", "metadata_spec_version", "timestamp", "expiration", "delegations"):
            if k not in md:
                run.violate(("C16",), "field-missing", "%s returned metadata without %r" % (fn, k), "field-missing:" + k)
                return False
        w = self.calls.raw("wrap_as_signable", md)
        if not w.ok:
            run.violate(("C16",), "builder-unwrappable", "%s output cannot be wrapped: %r" % (fn, w))
            return False
        if md["type"] in ("root", "key_mgr"):
            c = self.calls.call("checkformat_delegating_metadata", w.value)
            if c.ok:
                # the same verdict from a checker that has no history (another process, a fresh client)
                from seams import reset_library_state
                reset_library_state()
                self.patch.set(self.lib.common, "datetime", self.lib.common.datetime) if False else None
                self._reinstall_clock()
                c2 = self.calls.call("checkformat_delegating_metadata", copy.deepcopy(w.value))
                run.probe("fresh_state_recheck")
                if not c2.ok:
                    run.violate(("C16", "C12"), "builder-output-malformed",
                                "%s returned metadata that a checker without history rejects (%r) although the checker in this process accepted it"
                                % (fn, c2), "builder-output-malformed:fresh")
                    return False
            if not c.ok:
                run.violate(("C16",), "builder-output-malformed", "%s returned metadata the delegating-metadata checker rejects: %r"
                            % (fn, c), "builder-output-malformed")
                return False
        if fn == "build_root_metadata":
            if md["type"] != "root" or set(md["delegations"]) != {"root", "key_mgr"}:
                run.violate(("C16",), "root-delegations", "root metadata must delegate exactly root and key_mgr", "root-delegations")
                return False
        # default timestamps
        if self.default_times:
            try:
                ts, ex = parse_iso(md["timestamp"]), parse_iso(md["expiration"])
            except (ValueError, TypeError):
                run.violate(("C16",), "default-times-malformed", "default timestamp / expiration not in the UTC format")
                return False
            dist = (ex - ts).total_seconds()
            moved = abs(self.read_times[-1] - self.read_times[0]) if len(self.read_times) >= 2 else 0
            run.probe("default_times_checked")
            if moved:
                run.probe("clock_moved_between_the_two_reads")
            if not (dist > 0 and abs(dist - 365 * 86400) <= moved + 1):
                run.violate(("C16",), "default-expiry-distance",
                            "default expiration is %.0f s after the timestamp (expected one year +- %d s of observed clock movement)"
                            % (dist, moved + 1), "default-expiry-distance")
                return False
            # the timestamp is the simulated UTC time of one of the reads
            tsec = (ts - _dt.datetime(1970, 1, 1)).total_seconds()
            if not any(abs(tsec - int(t)) <= 1 for t in self.read_times):
                run.violate(("C16",), "default-timestamp-wrong", "default timestamp %s is not the simulated UTC time" % md["timestamp"],
                            "default-timestamp-wrong")
                return False
        return True

    def op_build_root(self, op):
        k = self.keys
        rk = [k.pub[i] for i in op["root"] if i < len(k)]
        mk = [k.pub[i] for i in op["km"] if i < len(k)]
        args = [op["version"], rk, op["t"], mk, op["km_t"]]
        kw = {}
        given = {"type": "root", "version": op["version"],
                 "delegations": {"root": {"pubkeys": rk, "threshold": op["t"]}, "key_mgr": {"pubkeys": mk, "threshold": op["km_t"]}}}
        if op.get("ts") is not None:
            kw["root_timestamp"] = given["timestamp"] = op["ts"]
        if op.get("exp") is not None:
            kw["root_expiration"] = given["expiration"] = op["exp"]
        if op.get("dup_cross") and rk and mk and not op.get("corrupt"):
            # one list names a key twice - a key the *other* role lists too (root = [K1, K2], key_mgr = [K1, K3, K1])
            which = 3 if op["dup_cross"] == "km" else 1
            src = rk if which == 3 else mk
            lst = list(args[which])
            lst = [src[0]] + [x for x in lst if x != src[0]] + [src[0]]
            args[which] = lst
            given = {"type": "root"}
            op = dict(op, dup_cross_applied=True)
            self.run.fault("operator_error_duplicate_key_across_roles")
        plain = not op.get("corrupt") and not op.get("dup_cross_applied")
        if op.get("corrupt"):
            pos, val = op["corrupt"]
            self.run.fault("operator_error_argument_corrupted")
            if pos < 5:
                args[pos] = val
            elif pos == 5:
                kw["root_timestamp"] = val
            else:
                kw["root_expiration"] = val
            given = {"type": "root"}
        self.default_times = "root_timestamp" not in kw and "root_expiration" not in kw
        o = self._call_builder("build_root_metadata", args, kw, op.get("jumps"))
        self._judge("build_root_metadata", o, given, plain, op)
        if o.ok and plain and not self.run.stop:
            self.last_root = o.value

    def op_build_deleg(self, op):
        k = self.keys
        dels = {r: {"pubkeys": [k.pub[i] for i in idx if i < len(k)], "threshold": t} for r, (idx, t) in op["dels"].items()}
        must_reject = False
        if op.get("bad_role") and op["bad_role"][0] in dels:
            r, how = op["bad_role"]
            d = dels[r]
            hx = "ab" * 32
            if how == "threshold0":
                d["threshold"] = 0
            elif how == "dupkeys":
                d["pubkeys"] = [hx, hx]
            elif how == "dupcross":
                other = next((dd["pubkeys"][0] for rr, dd in dels.items() if rr != r and dd.get("pubkeys")), hx)
                d["pubkeys"] = [other] + [x for x in d.get("pubkeys", []) if x != other] + [other]
            elif how == "nokeys":
                del d["pubkeys"]
            elif how == "extra":
                d["note"] = 1
            elif how == "upper":
                d["pubkeys"] = [hx.upper()]
            else:
                d["threshold"] = "1"
            must_reject = True
            self.run.fault("operator_error_malformed_delegation")
        mtype = op["type"]
        if op.get("type_as") and isinstance(mtype, str):
            import enum
            if op["type_as"] == "str_enum":
                mtype = enum.Enum("Role", {"MEMBER": mtype}, type=str).MEMBER        # class Role(str, Enum): equal to, hashes like and serializes as the plain string
            elif op["type_as"] == "str_sub":
                mtype = type("RoleName", (str,), {})(mtype)
            self.run.probe("metadata_type_as_" + op["type_as"])
        args = [mtype]
        kw = {"delegations": dels, "version": op["version"]}
        given = {"type": op["type"], "version": op["version"], "delegations": dels}
        if op.get("nodels"):
            del kw["delegations"]
            given["delegations"] = {}
        if op.get("ts") is not None:
            kw["timestamp"] = given["timestamp"] = op["ts"]
        if op.get("exp") is not None:
            kw["expiration"] = given["expiration"] = op["exp"]
        plain = not op.get("corrupt")
        if op.get("corrupt"):
            name, val = op["corrupt"]
            self.run.fault("operator_error_argument_corrupted")
            if name == "metadata_type":
                args[0] = val
            else:
                kw[name] = val
            given = {}
        self.default_times = "timestamp" not in kw and "expiration" not in kw
        o = self._call_builder("build_delegating_metadata", args, kw, op.get("jumps"))
        if must_reject and o.ok:
            self.run.violate(("C16",), "builder-accepted-malformed-delegation", "build_delegating_metadata returned metadata for a malformed delegation (%s)"
                             % op["bad_role"][1], "builder-accepted-malformed-delegation")
            return
        self._judge("build_delegating_metadata", o, given if not must_reject else {}, plain and not must_reject, op)

    def _time_definitely_invalid(self, v):
        from refmodel import date_status
        return date_status(v) == "invalid"

    def _judge(self, fn, o, given, plain, op):
        run = self.run
        c = op.get("corrupt")
        if o.ok and c and ((fn == "build_root_metadata" and c[0] in (5, 6)) or (fn == "build_delegating_metadata" and c[0] in ("timestamp", "expiration"))) \
                and c[1] is not None and self._time_definitely_invalid(c[1]):
            run.violate(("C16",), "builder-accepted-invalid-time", "%s returned metadata for a timestamp / expiration argument %r that neither the "
                        "documented format nor the standard parser admits" % (fn, c[1]), "builder-accepted-invalid-time")
            return
        if o.ok and op.get("dup_cross_applied") and fn == "build_root_metadata":
            run.violate(("C16",), "builder-accepted-non-keys", "build_root_metadata returned metadata for a role whose key list names one key twice "
                        "(a key that another role lists as well)", "builder-accepted-non-keys")
            return
        if o.ok and c and fn == "build_root_metadata" and c[0] in (1, 3):
            from refmodel import keylist_ok
            v = c[1]
            if not (keylist_ok(v) and len(set(v)) == len(v)):
                run.violate(("C16",), "builder-accepted-non-keys", "build_root_metadata returned metadata for a key list that is not a list of distinct "
                            "64-digit lower-case hex strings: %r" % (v,), "builder-accepted-non-keys")
                return
        if not o.ok:
            run.rejects += 1
            if not isinstance(o.exc, (TypeError, ValueError)):
                run.violate(("C16", "C13"), "builder-error-class", "%s raised %r" % (fn, o), "%s:%s" % (fn, o.cls))
                return
            if plain and op.get("valid"):
                run.violate(("C16",), "builder-rejected-valid", "%s raised %r on valid arguments (clock %r)" % (fn, o, self.read_times),
                            "builder-rejected-valid:" + o.cls)
            return
        run.accepts += 1
        if self._check_md(fn, o.value, given, plain, None) and isinstance(o.value.get("delegations"), dict):
            # the operator goes on editing what the builder returned (adds a role by hand); later builder calls must not see it
            o.value["delegations"]["added-by-hand"] = {"pubkeys": [self.keys.pub[0]], "threshold": 1}
            o.value["type"] = "edited"

    def op_closure(self, op):
        """v -> v+1 -> v+2 built by build_root_metadata, threshold-signed in OpenPGP mode, verified by verify_root."""
        k = self.keys
        sets = op["sets"]
        docs = []
        v = op["v0"]
        for i, (idx, t) in enumerate(sets):
            o = self._call_builder("build_root_metadata", [v + i, [k.pub[j] for j in idx], t, [k.pub[0]], 1], {}, [])
            if not o.ok:
                self.run.violate(("C16",), "builder-rejected-valid", "build_root_metadata raised %r on valid arguments" % (o,),
                                 "builder-rejected-valid:" + o.cls)
                return
            docs.append(self.calls.raw("wrap_as_signable", o.value).value)
            self.cstate.now += 86400 * 30
        for i in range(1, len(docs)):
            signers = set(sets[i - 1][0]) | set(sets[i][0])
            for j in sorted(signers):
                hdr = b"\x04\x00\x16\x08\x00\x00"
                sig = k.priv[j].sign(pgp_digest(refcanon(docs[i]["signed"]), hdr))
                docs[i]["signatures"][k.pub[j]] = {"other_headers": hdr.hex(), "signature": sig.hex()}
            o = self.calls.call("verify_root", docs[i - 1], docs[i])
            self.run.probe("chain_closure_step")
            if not o.ok:
                self.run.violate(("C16", "C03"), "chain-not-closed",
                                 "root v%d built by build_root_metadata and signed by every old and new root key is rejected as successor "
                                 "of v%d: %r" % (v + i, v + i - 1, o), "chain-not-closed:" + o.cls)
                return

    # ------------------------------------------------------------------ generator
    def gen(self, rng):
        nk = len(self.keys)
        r = rng.random()
        dt = rng.choice([0, 1, 59, 3600, 86399, 86400, 365 * 86400, -3600])
        jumps = []
        if rng.random() < 0.5:
            jumps = [rng.choice([0, 0, 1, -1, 30, 3600, -3600, 86400, -86400, 30 * 86400, -30 * 86400, rng.randint(-2592000, 2592000)])
                     for _ in range(2)]
        if r < 0.12:
            sets = []
            for _ in range(3):
                idx = sorted(rng.sample(range(nk), rng.randint(1, 3)))
                sets.append([idx, rng.randint(1, len(idx))])
            return {"op": "closure", "sets": sets, "v0": rng.choice([1, 2, 41, 2**31 - 1, 2**53]), "dt": dt}
        valid = rng.random() < 0.75
        if r < 0.55:
            idx = sorted(rng.sample(range(nk), rng.randint(0, 3)))
            op = {"op": "build_root", "version": rng.choice([1, 2, 7, 2**40]), "root": idx, "t": rng.randint(1, max(1, len(idx)) + 1),
                  "km": sorted(rng.sample(range(nk), rng.randint(0, 2))), "km_t": rng.choice([1, 2]), "jumps": jumps, "dt": dt, "valid": True}
            if rng.random() < 0.08 and op["root"] and op["km"]:
                op["dup_cross"] = rng.choice(["km", "root"])
                op["valid"] = False
            if rng.random() < 0.35:
                op["ts"] = rng.choice(["2021-03-04T05:06:07Z", "2024-02-29T23:59:59Z", "1970-01-01T00:00:00Z", "9999-12-31T23:59:59Z"])
            if rng.random() < 0.3:
                op["exp"] = rng.choice(["2031-03-04T05:06:07Z", "2000-01-01T00:00:00Z", "9999-12-31T23:59:59Z"])
            if not valid:
                pos = rng.randrange(7)
                old = [op["version"], ["k"], op["t"], ["k"], op["km_t"], "2021-03-04T05:06:07Z", "2031-03-04T05:06:07Z"][pos]
                op["corrupt"] = [pos, rng.choice([gen.confuse(rng, old), _bad_for(rng, pos)])]
                op["valid"] = False
            return op
        roles = rng.sample(["key_mgr", "pkg_mgr", "root", "x", "é", "", "{}", "{0}", "{channel}-pkg_mgr", "pkg_mgr-{1}", "{0.signer}", "%s", "{"], rng.randint(0, 3))
        dels = {}
        for role in roles:
            idx = sorted(rng.sample(range(nk), rng.randint(0, 3)))
            dels[role] = [idx, rng.randint(1, 3)]
        bad_role = None
        if roles and valid and rng.random() < 0.2:
            bad_role = rng.choice(roles)       # one role's delegation is malformed: the builder must answer with an argument error
        op = {"op": "build_deleg", "type": rng.choice(["key_mgr", "root", "pkg_mgr", "anything", ""]), "dels": dels,
              "version": rng.choice([1, 3, 10**12]), "jumps": jumps, "dt": dt, "valid": True, "nodels": rng.random() < 0.15}
        if rng.random() < 0.08:
            op["type_as"] = rng.choice(["str_enum", "str_enum", "str_sub"])
        if bad_role is not None:
            op["bad_role"] = [bad_role, rng.choice(["threshold0", "dupkeys", "dupcross", "dupcross", "nokeys", "extra", "upper", "strthreshold"])]
            op["valid"] = False
            op["nodels"] = False
        if rng.random() < 0.35:
            op["ts"] = rng.choice(["2021-03-04T05:06:07Z", "2024-02-29T00:00:00Z"])
        if rng.random() < 0.3:
            op["exp"] = rng.choice(["2031-03-04T05:06:07Z", "2022-01-01T00:00:00Z"])
        if not valid:
            name = rng.choice(["metadata_type", "delegations", "version", "timestamp", "expiration"])
            old = {"metadata_type": "key_mgr", "delegations": {}, "version": 1, "timestamp": "2021-03-04T05:06:07Z",
                   "expiration": "2031-03-04T05:06:07Z"}[name]
            op["corrupt"] = [name, rng.choice([gen.confuse(rng, old), _bad_for(rng, name)])]
            op["valid"] = False
        return op


def _bad_for(rng, pos):
    """Near-miss values for an argument position (boundary cases of its grammar)."""
    hx = "".join(rng.choice("0123456789abcdef") for _ in range(64))
    if pos in (0, 2, 4, "version"):
        return rng.choice([0, -1, 1.0, 2.5, True, False, "1", float("inf"), float("nan"), 10**400, None])
    if pos in (1, 3):
        if rng.random() < 0.5:
            return [hx2 for hx2 in [gen.respell(hx, rng.choice(gen.SPELLINGS))] if hx2 != hx] or [hx.upper()]
        return rng.choice([[hx, hx], [hx.upper()], [hx[:-1]], [hx + "0"], hx, [None], [[hx]], {"k": hx}, [hx, " " + hx[1:]]])
    if pos in (5, 6, "timestamp", "expiration"):
        return rng.choice(["2021-W01-1T00:00:00Z", "2021-01-04T00:00+01Z", "2021-01-04T00+01:00Z", "2021-01-04T000000.0Z", "20210104T000000000Z",
                           "2021-02-30T00:00:00Z", "2021-03-04T05:06:07", "2021-03-04 05:06:07Z", "2021-03-04T05:06:07+00:00", "", 1614834367,
                           "2021-03-04T24:00:00Z", "21-03-04T05:06:07Z", "2021-03-04T05:06:07Z ", None, "０００１-01-01T00:00:00Z"])
    if pos == "delegations":
        return rng.choice([{"r": {"pubkeys": [hx], "threshold": 0}}, {"r": {"pubkeys": [hx, hx], "threshold": 1}}, {"r": {"pubkeys": hx, "threshold": 1}},
                           {"r": {"pubkeys": [hx]}}, {"r": {"pubkeys": [hx], "threshold": 1, "x": 1}}, {5: {"pubkeys": [hx], "threshold": 1}},
                           {"r": [hx]}, [["r", {"pubkeys": [hx], "threshold": 1}]], {"r": {"pubkeys": [hx], "threshold": 1.0}}])
    if pos == "metadata_type":
        return rng.choice([None, 5, ["root"], b"root".decode(), {"t": "root"}])
    return None
